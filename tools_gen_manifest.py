#!/usr/bin/env python3
"""Regenerates /verif/MANIFEST.json from the table below (kept in one place so it stays valid)."""
import json, sys

SETUP = "cd /verif/sim && env -u GOSUMDB -u GOTOOLCHAIN GOFLAGS=-mod=mod GOPROXY=off go build -o ../bin/vsim ./cmd/vsim && cd /verif && ./bin/vsim build >/dev/null"

claimed = {
 "C01": ("exploration", "3", "seeded simulation of the routing proxy (one instance, and 2-3 instances with real intra-proxy streams over a simulated memberlist) between two cluster models; early-ack oracle evaluated at the instant each upstream ACK is sent"),
 "C02": ("exploration", "3", "seeded simulation (single- and multi-instance deployment); Temporal's ExecutableTaskTracker rules on every target stream, owner/payload/exactly-once/order oracles"),
 "C03": ("exploration", "3", "seeded simulation (single- and multi-instance deployment); monotone/bounded online, bounded liveness in a fault-free fair tail, and the same tail once injected faults (stream breaks, intra-proxy connection resets, instance crash and restart) have stopped"),
 "C04": ("fault_enumeration", "3", "seeded simulation with stream breaks/reconnects, intra-proxy connection resets, instance crash and instance restart injected at arbitrary scheduling points (fault times spread over the run, biased to in-flight state; single- and multi-instance deployment); behavioural signatures separate three recorded design-level findings"),
 "C05": ("exploration", "3", "seeded simulation (in-system translation oracle through a recording ShardManager decorator) plus seeded op-sequence testing of the ring component against a reference model"),
 "C06": ("fault_enumeration", "3", "seeded simulation of the pass-through forwarder; terminal events of every kind placed at arbitrary scheduling points; relay order/content, bounded joint termination under a fair schedule, leaked-task oracle"),
 "C09": ("exploration", "3", "seeded simulation of 2-3 proxy instances over a simulated memberlist fabric and intra-proxy links (announcement order/delay/duplication, instance leave and rejoin under the same name); convergence oracle at quiescence and delivery probes against each instance's own tables"),
 "C10": ("fault_enumeration", "3", "seeded simulation of the real mux pool (yamux, providers, manager, sessions) over a simulated network with connection/session faults and shutdown at arbitrary points; limit, self-healing, permit accounting and closed-after-shutdown oracles"),
 "C11": ("exploration", "3", "seeded simulation with real gRPC over the mux pool; RPC outcome and serving session vs the registered live set at quiescent points, including after 31 virtual minutes without calls (gRPC channel idle timeout)"),
 "C19": ("fault_enumeration", "3", "seeded TLS handshakes between the proxy's real TLS configurations and a harness peer with generated credentials, under simulated clock jumps and connection cuts/corruption; admission vs independent x509 verification at the simulated time"),
 "C20": ("exploration", "3", "seeded simulation of the stream handler (pass-through, LCM and routing mode) with hostile stream-open metadata, concurrently, followed by well-formed streams; served-or-rejected, wedge (task waiting on a lock forever), counter-bookkeeping and crash oracles"),
 "C07": ("exploration", "3", "configuration swarm over a really assembled and running ClusterConnection in LCM mode between two fake clusters on the simulated network; DescribeCluster override and forwarded stream metadata vs independent arithmetic and Temporal's hash partitioning"),
 "C08": ("exploration", "3", "seeded simulation with overlapping stream incarnations (single- and multi-instance deployment, instance crash and restart); crash, per-instance registry, intra-proxy link/stream and leaked-task oracles"),
}
pending = {k: "check under construction in this round (simulation world not built yet); will be claimed once it runs" for k in []}
NA = {
 "C12": "pure function of (message, namespace mapping): no schedule, clock, fault or interleaving for a simulator to own",
 "C13": "pure function of (message, mapping, static wiring): no schedule, clock or fault can change the outcome",
 "C14": "pure function of (message, search-attribute mapping)",
 "C15": "pure function of (method, policy, static interceptor chain); one grpc.Server object serves every transport, no history or fault can change the decision",
 "C16": "pure function of (request, policy, mapping, wiring order)",
 "C17": "pure function of the wire bytes",
 "C18": "pure function of (type, path, bytes)",
}

def main():
    extra = json.load(open('/verif/manifest_extra.json')) if len(sys.argv) > 1 else {}
    checks = []
    for pid, (level, sec, text) in sorted(claimed.items()):
        checks.append({
            "property_id": pid,
            "quick_cmd": f"./bin/vsim check {pid} --tier quick",
            "thorough_cmd": f"./bin/vsim check {pid} --tier thorough",
            "evidence_file": f"/verif/evidence/{pid}.json",
            "replay_cmd_template": "./bin/vsim replay {path}",
            "engine": "vsim",
            "level_claimed": {"category": level, "text": text, "design_ref": "DESIGN.md section 5 (" + pid + ")"},
            "level_note": "sampling of schedules/faults, not enumeration; trusts the source transformation, testing/synctest, the stream and cluster models (DESIGN.md section 8)",
            "technique": "deterministic simulation with fault injection (seeded scheduler over instrumented real code, replayable decision tape)",
        })
    na = [{"property_id": k, "reason": v} for k, v in sorted({**NA, **pending}.items())]
    m = {
        "version": 1,
        "setup_cmd": SETUP,
        "hooks": {
            "guard": "vsim-overlay",
            "enable": "no hooks are committed in /repo: every check instruments /repo's current working tree at build time (vsim/instrument) and compiles it through `go test -c -overlay`; the unmodified tree is what `go build` sees",
            "baseline_off_cmd": "cd /repo && go test -vet=off -count=1 -timeout 25m ./...",
            "source_commits": [],
            "add_only": True,
        },
        "engines": [{"name": "vsim", "path": "/verif/sim", "serves_properties": sorted(claimed.keys()),
                     "kind_free_text": "deterministic simulator: AST instrumentation + cooperative scheduler over testing/synctest + simulated streams/network/memberlist"}],
        "checks": checks,
        "not_applicable": na,
        "notes": "Exit codes: 0 held, 1 VIOLATION (replayed), 2 tool trouble. See DESIGN.md.",
    }
    json.dump(m, open('/verif/MANIFEST.json', 'w'), indent=1)
    print("claimed", sorted(claimed), "NA", sorted(NA), "pending", sorted(pending))

if __name__ == '__main__':
    main()
