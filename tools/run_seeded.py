#!/usr/bin/env python3
"""Runs the quick checks against every seeded change under /verif/seeded: apply the patch to /repo's
working tree, run the check(s), restore the tree. Usage: tools/run_seeded.py [name-substr ...] [--props C01,C05]"""
import subprocess, sys, os, json, time, glob
REPO="/repo"
def sh(c): return subprocess.run(c, shell=True, capture_output=True, text=True)
def main():
    args=[a for a in sys.argv[1:] if not a.startswith('--')]
    extra=None
    for a in sys.argv[1:]:
        if a.startswith('--props='): extra=a.split('=')[1].split(',')
    if sh("git -C %s status --porcelain"%REPO).stdout.strip():
        print("refusing: /repo has uncommitted changes"); return 2
    out=[]
    for d in sorted(glob.glob('/verif/seeded/*/')):
        name=os.path.basename(d.rstrip('/'))
        if args and not any(a in name for a in args): continue
        meta=json.load(open(d+'meta.json')) if os.path.exists(d+'meta.json') else json.load(open(d+'meta_agent.json'))
        props=extra or meta.get("checks") or [meta['property']]
        if meta.get("obsolete") and not args:
            print("%-12s obsolete: %s"%(name,meta["obsolete"][:150])); continue
        r=sh("git -C %s apply %spatch.diff"%(REPO,d))
        if r.returncode!=0:
            print("%-12s patch does not apply: %s"%(name,r.stderr[:200])); continue
        try:
            for p in props:
                t0=time.time()
                r=sh("cd /verif && ./bin/vsim check %s --tier quick"%p)
                viol=[l for l in r.stdout.splitlines() if l.startswith("VIOLATION")]
                cls=[l for l in r.stdout.splitlines() if l.startswith("violation class")]
                verdict="CAUGHT" if (r.returncode==1 and viol) else ("MISSED" if r.returncode==0 else "TOOL(%d)"%r.returncode)
                print("%-12s %-4s %-8s %4.0fs %s"%(name,p,verdict,time.time()-t0,cls[0][:120] if cls else ""))
                if verdict.startswith("TOOL"): print(r.stderr[-500:])
                out.append((name,p,verdict,cls[0] if cls else ""))
        finally:
            sh("git -C %s checkout -- ."%REPO)
    json.dump(out,open('/verif/tools/seeded_last.json','w'),indent=1)
if __name__=='__main__': sys.exit(main())
