#!/bin/bash
# usage: tools/run_all.sh [quick|thorough]   - runs every claimed check from MANIFEST.json, reports exit codes and validates the evidence files
TIER=${1:-quick}
cd /verif
python3 - "$TIER" <<'PY'
import json,subprocess,sys,time
tier=sys.argv[1]
m=json.load(open('/verif/MANIFEST.json'))
bad=0
for c in m['checks']:
    cmd=c['quick_cmd'] if tier=='quick' else c['thorough_cmd']
    t0=time.time()
    r=subprocess.run(cmd,shell=True,capture_output=True,text=True,cwd='/verif')
    dt=time.time()-t0
    viol=[l for l in r.stdout.splitlines() if l.startswith('VIOLATION')]
    known=len([l for l in r.stdout.splitlines() if l.startswith('KNOWN-FINDING')])
    last=[l for l in r.stdout.splitlines() if l.startswith(c['property_id']+':')]
    print("%-4s exit=%d %5.0fs known=%d %s %s"%(c['property_id'],r.returncode,dt,known,(last[-1] if last else ''),' '.join(viol)))
    if r.returncode!=0: bad+=1; print(r.stderr[-500:])
sys.exit(1 if bad else 0)
PY
