#!/usr/bin/env python3
"""Regression meta-check for the repaired defects: for every `fixed` entry of known_findings.json,
take the fix out of /repo's CURRENT tree again (`git revert -n <commit>`, nothing is committed),
run the check of the entry's property and expect a VIOLATION of that property; keep the replay
file as replays/found/<property>-without-<commit>.json; restore the tree (`git reset --hard`).
Usage: tools/fix_regress.py [commit-or-property ...]      (run from /verif; /repo must be clean)
A fix whose revert does not apply cleanly on top of the later fixes is reported as SKIP."""
import json, os, shutil, subprocess, sys, time

REPO = "/repo"


def sh(cmd):
    return subprocess.run(cmd, shell=True, capture_output=True, text=True)


def main():
    sel = sys.argv[1:]
    if sh("git -C %s status --porcelain" % REPO).stdout.strip():
        print("refusing: /repo has uncommitted changes")
        return 2
    kf = json.load(open("/verif/known_findings.json"))["findings"]
    out = []
    for f in kf:
        if f.get("status") != "fixed" or not f.get("commit"):
            continue
        c, prop = f["commit"], f["property"]
        if sel and not any(s in (c, prop) for s in sel):
            continue
        r = sh("git -C %s revert -n %s" % (REPO, c))
        try:
            if r.returncode != 0:
                print("%-4s %s SKIP: revert does not apply on the current tree" % (prop, c))
                out.append({"property": prop, "commit": c, "verdict": "revert-conflict"})
                continue
            b = sh("cd %s && GOFLAGS=-mod=mod GOPROXY=off go build ./... 2>&1 | tail -3" % REPO)
            if b.stdout.strip():
                print("%-4s %s SKIP: does not compile without the fix: %s" % (prop, c, b.stdout.strip()[:160]))
                out.append({"property": prop, "commit": c, "verdict": "no-compile"})
                continue
            verdict, detail, tier_used = "MISSED", "", ""
            for tier, extra in (("quick", ""), ("deeper", "--runs 40000 --wall 6m")):
                t0 = time.time()
                r = sh("cd /verif && ./bin/vsim check %s --tier quick %s" % (prop, extra))
                dt = time.time() - t0
                viol = [l for l in r.stdout.splitlines() if l.startswith("VIOLATION")]
                cls = [l for l in r.stdout.splitlines() if l.startswith("violation class")]
                tier_used = tier
                if r.returncode == 1 and viol:
                    verdict, detail = "CAUGHT", (cls[0] if cls else "")
                    rp = viol[0].split("replay=")[1].strip()
                    os.makedirs("/verif/replays/found", exist_ok=True)
                    dst = "/verif/replays/found/%s-without-%s.json" % (prop, c)
                    shutil.copy(rp, dst)
                    break
                if r.returncode not in (0, 1):
                    verdict, detail = "TOOL(%d)" % r.returncode, r.stderr[-300:]
                    break
            print("%-4s %s %-7s %-6s %4.0fs %s" % (prop, c, verdict, tier_used, dt, detail[:150]))
            out.append({"property": prop, "commit": c, "verdict": verdict, "tier": tier_used, "class": detail, "what": f.get("what", "")[:160]})
        finally:
            sh("git -C %s reset --hard -q HEAD" % REPO)
    json.dump(out, open("/verif/tools/fix_regress_last.json", "w"), indent=1)
    n = len([o for o in out if o["verdict"] == "CAUGHT"])
    print("%d/%d fixes: the check of the property reports a violation again when the fix is taken out" % (n, len(out)))
    # the replay files written by the checks themselves are scratch
    for fn in os.listdir("/verif/replays"):
        if fn.endswith(".json"):
            os.remove(os.path.join("/verif/replays", fn))
    return 0


if __name__ == "__main__":
    sys.exit(main())
