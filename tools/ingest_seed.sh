#!/bin/bash
# usage: ingest_seed.sh <agent-worktree> <seed-name> [checks,comma-separated]
# verifies the seeded change in the scratch worktree /tmp/wt/verify, stores it under /verif/seeded/<name>, runs the checks
set -u
SRC=$1; NAME=$2; CHECKS=${3:-}
[ -n "${SKIP_VERIFY:-}" ] || /tmp/wt/verify_seed.sh $SRC $NAME 2>&1 | grep -v "^ok\|no test files" | cut -c1-220
D=/verif/seeded/$NAME; mkdir -p $D
cp $SRC/SEEDED/patch.diff $D/; cp $SRC/SEEDED/zz_seeded*_test.go $D/ 2>/dev/null; cp $SRC/SEEDED/meta.json $D/meta_agent.json
python3 - "$NAME" "$CHECKS" "$SRC" <<'PY'
import json,sys,subprocess
name,checks,src=sys.argv[1:4]
d='/verif/seeded/%s/'%name
a=json.load(open(d+'meta_agent.json'))
pkg=subprocess.run("cd %s && git status --porcelain -uall | grep zz_seeded | grep -v SEEDED | awk '{print $2}' | head -1 | xargs dirname"%src,shell=True,capture_output=True,text=True).stdout.strip() or 'proxy'
run=a["demo_cmd"].split("-run ")[1].split(" ")[0] if "-run " in a.get("demo_cmd","") else "TestZZ|TestSeeded"
m={"id":name,"property":a["property"],"origin":"fresh sub-agent given only the property record and a scratch worktree",
 "summary":a["summary"],"needs":a["needs"],"files":a["files"],
 "confirmed":"in scratch worktree /tmp/wt/verify: patch applies to /repo HEAD, go build ./... ok, existing tests pass with it, the demonstration test fails with it and passes without it",
 "demo":"zz_seeded_demo_test.go (copy into %s/ and run: go test -vet=off -count=1 -run '%s' ./%s/)"%(pkg,run,pkg),
 "checks":(checks.split(',') if checks else [a["property"]])}
json.dump(m,open(d+'meta.json','w'),indent=1)
PY
cd /verif && python3 tools/run_seeded.py $NAME 2>&1 | tail -4
