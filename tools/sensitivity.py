#!/usr/bin/env python3
"""Sensitivity meta-check: apply each deliberate break to /repo's working tree, run the quick
check of the property it targets, expect exit 1 (VIOLATION), and restore the tree.
Usage: tools/sensitivity.py [name-substring ...]      (run from /verif)
Nothing is committed in /repo; the tree is restored with `git checkout -- .` after each break."""
import subprocess, sys, time, json, os

REPO = "/repo"

MUTS = [
 # (name, file, old, new, property, extra check args)
 ("C01-max-instead-of-min", "proxy/proxy_streams.go",
  "if first || wm < min {", "if first || wm > min {", "C01"),
 ("C01-remove-seeding-fix", "proxy/proxy_streams.go",
  "r.ackByTarget[targetShardID] = tasks[0].SourceTaskId", "_ = tasks", "C01"),
 ("C03-drop-monotone-guard", "proxy/proxy_streams.go",
  "if !first && min >= lastSentMin && lastExclusiveHighOriginal > 0 {", "if _ = lastSentMin; !first && lastExclusiveHighOriginal > 0 {", "C03"),
 ("C03-drop-clamp", "proxy/proxy_streams.go",
  "if min > lastExclusiveHighOriginal {", "if false && min > lastExclusiveHighOriginal {", "C04"),
 ("C05-aggregate-exclusive", "proxy/proxy_streams.go",
  "count64 := watermark - b.startProxyID + 1", "count64 := watermark - b.startProxyID", "C05"),
 ("C05-grow-keeps-head", "proxy/proxy_streams.go",
  "idx := (b.head + i) % len(b.entries)\n\t\tnewEntries[i] = b.entries[idx]", "idx := i % len(b.entries)\n\t\tnewEntries[i] = b.entries[idx]", "C05"),
 ("C05-discard-unbounded", "proxy/proxy_streams.go",
  "\tif count > b.size {\n\t\tcount = b.size\n\t}\n\tb.head = (b.head + count) % len(b.entries)", "\tb.head = (b.head + count) % len(b.entries)", "C05"),
 ("C02-high-not-above-last", "proxy/proxy_streams.go",
  "proxyExclusiveHigh = m.Messages.ReplicationTasks[len(m.Messages.ReplicationTasks)-1].SourceTaskId + 1",
  "proxyExclusiveHigh = m.Messages.ReplicationTasks[len(m.Messages.ReplicationTasks)-1].SourceTaskId", "C02"),
 ("C02-wrong-shard-count", "proxy/admin_stream_transfer.go",
  "localShardCount: routingParameters.RoutingLocalShardCount,", "localShardCount: routingParameters.OverrideShardCount,", "C02"),
 ("C08-drop-channel-identity-check", "proxy/shard_manager.go",
  "if currentChan, exists := sm.remoteSendChannels[shardID]; exists && currentChan == expectedChan {",
  "if currentChan, exists := sm.remoteSendChannels[shardID]; exists && (currentChan == expectedChan || true) {", "C08"),
 ("C08-drop-timestamp-check", "proxy/shard_manager.go",
  "if shardInfo, exists := sm.localShards[key]; exists && shardInfo.Created.Equal(expectedRegisteredAt) {",
  "if shardInfo, exists := sm.localShards[key]; exists && (shardInfo.Created.Equal(expectedRegisteredAt) || true) {", "C08"),
 ("C08-remove-recover-deliver", "proxy/shard_manager.go",
  "\t\t\t\tif panicErr := recover(); panicErr != nil {\n\t\t\t\t\tlogger.Warn(\"Failed to deliver messages to local shard owner (channel closed)\")\n\t\t\t\t}",
  "\t\t\t\t_ = logger", "C08"),
 ("C08-remove-pending-watermark-recover-fix", "proxy/proxy_streams.go",
  "\t\t\t\tif panicErr := recover(); panicErr != nil {\n\t\t\t\t\tr.logger.Warn(\"Failed to send pending watermark to local shard (channel closed)\",\n\t\t\t\t\t\ttag.NewStringTag(\"targetShard\", ClusterShardIDtoString(targetShardID)))\n\t\t\t\t}",
  "\t\t\t\t_ = 0", "C08"),
 ("C06-omit-cancel", "proxy/admin_stream_transfer.go",
  "outgoingContext, cancel := context.WithCancel(outgoingContext)\n\tdefer cancel()\n\n\t// The underlying adminClient",
  "outgoingContext, cancel := context.WithCancel(outgoingContext)\n\t_ = cancel\n\n\t// The underlying adminClient", "C06"),
 ("C06-unbuffered-closesent", "proxy/admin_stream_transfer.go",
  "closeSent := make(chan struct{}, 1)", "closeSent := make(chan struct{})", "C06"),
 ("C07-swap-lcm-target", "proxy/cluster_connection.go",
  "\t\t\treturn LCMParameters{\n\t\t\t\tLCM:              lcm,\n\t\t\t\tTargetShardCount: shardCountConfig.LocalShardCount,\n\t\t\t}",
  "\t\t\treturn LCMParameters{\n\t\t\t\tLCM:              lcm,\n\t\t\t\tTargetShardCount: shardCountConfig.RemoteShardCount,\n\t\t\t}", "C07"),
 ("C09-before-wrong-way", "proxy/shard_manager.go",
  "if localShard.Created.Before(msg.Timestamp) {", "if msg.Timestamp.Before(localShard.Created) {", "C09"),
 ("C09-notifyleave-keeps-state", "proxy/shard_manager.go",
  "\t\tdelete(sed.manager.remoteNodeStates, node.Name)", "\t\t_ = node.Name", "C09"),
 ("C10-forget-release-on-ping-error", "transport/mux/provider.go",
  "\t\t\t\t\t_ = session.Close()\n\t\t\t\t\t_ = conn.Close()\n\t\t\t\t\tm.muxPermits.Release(1)", "\t\t\t\t\t_ = session.Close()\n\t\t\t\t\t_ = conn.Close()", "C10"),
 ("C10-no-recycle-on-session-exit", "transport/mux/multi_mux_manager.go",
  "\t\tm.muxProvider.AllowMoreConns(1)", "\t\t_ = newId", "C10"),
 ("C11-no-update-on-unregister", "transport/mux/multi_mux_manager.go",
  "\tdelete(m.muxes, id)\n\tm.notifyChange()", "\tdelete(m.muxes, id)", "C11"),
 ("C19-insecure-skip-verify", "encryption/tls.go",
  "tlsConfig.InsecureSkipVerify = clientConfig.SkipCAVerification", "tlsConfig.InsecureSkipVerify = true", "C19"),
 ("C19-any-client-cert", "encryption/tls.go",
  "tlsConfig.ClientAuth = tls.RequireAndVerifyClientCert", "tlsConfig.ClientAuth = tls.RequireAnyClientCert", "C19"),
 ("C20-remove-bound", "proxy/replication_stream_observer.go",
  "if idx >= maxObservedStreamIndex {", "if false && idx >= maxObservedStreamIndex {", "C20"),
 ("C09-tombstone-survives-rejoin", "proxy/shard_manager.go",
  "\t\tdelete(sed.manager.departedNodes, node.Name)", "\t\t_ = node.Name", "C09"),
 ("C08-tombstone-survives-restart", "proxy/shard_manager.go",
  "\t\tdelete(sed.manager.departedNodes, node.Name)", "\t\t_ = node.Name", "C08"),
]


def sh(cmd, **kw):
    return subprocess.run(cmd, shell=True, capture_output=True, text=True, **kw)


def main():
    sel = sys.argv[1:]
    results = []
    if sh("git -C %s status --porcelain" % REPO).stdout.strip():
        print("refusing: /repo has uncommitted changes")
        return 2
    for m in MUTS:
        name, f, old, new, prop = m[:5]
        if sel and not any(s in name for s in sel):
            continue
        path = os.path.join(REPO, f)
        src = open(path).read()
        if src.count(old) != 1:
            print("%-45s SKIP: anchor text occurs %d times" % (name, src.count(old)))
            results.append((name, prop, "anchor-missing"))
            continue
        open(path, "w").write(src.replace(old, new))
        try:
            b = sh("cd %s && GOFLAGS=-mod=mod GOPROXY=off go build ./... 2>&1 | tail -3" % REPO)
            if b.stdout.strip():
                print("%-45s SKIP: does not compile: %s" % (name, b.stdout.strip()[:200]))
                results.append((name, prop, "no-compile"))
                continue
            t0 = time.time()
            r = sh("cd /verif && ./bin/vsim check %s --tier quick" % prop)
            dt = time.time() - t0
            viol = [l for l in r.stdout.splitlines() if l.startswith("VIOLATION")]
            verdict = "CAUGHT" if (r.returncode == 1 and viol) else ("MISSED" if r.returncode == 0 else "TOOL(%d)" % r.returncode)
            cls = [l for l in r.stdout.splitlines() if l.startswith("violation class")]
            print("%-45s %-8s %s %5.0fs  %s" % (name, verdict, prop, dt, (cls[0][:110] if cls else "")))
            if verdict.startswith("TOOL"):
                print(r.stderr[-600:])
            results.append((name, prop, verdict))
        finally:
            sh("git -C %s checkout -- ." % REPO)
    json.dump(results, open("/verif/tools/sensitivity_last.json", "w"), indent=1)
    missed = [r for r in results if r[2] != "CAUGHT"]
    print("%d/%d caught" % (len(results) - len(missed), len(results)))
    return 0


if __name__ == "__main__":
    sys.exit(main())
