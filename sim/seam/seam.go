// Package seam holds the replacement constructors that the instrumenter swaps in at the
// environment seams of the proxy package (see cmd/vsim/build.go for the table).
package seam

import (
	"crypto/tls"
	"net"
	"sync"

	"go.temporal.io/server/api/adminservice/v1"
	"google.golang.org/grpc"
	"google.golang.org/grpc/credentials/insecure"

	"vsim/simnet"
)

var (
	mu sync.Mutex
	// IntraClientFactory builds the AdminServiceClient used for intra-proxy links; the
	// world installs it (streams opened through it terminate in the peer instance's real handler).
	IntraClientFactory func(target string) adminservice.AdminServiceClient
	targets            = map[*grpc.ClientConn]string{}
)

// IntraNewClient replaces grpc.NewClient in intra_proxy_router.go: no network is dialled;
// the returned conn is only a handle that remembers its target.
func IntraNewClient(target string, opts ...grpc.DialOption) (*grpc.ClientConn, error) {
	cc, err := grpc.NewClient("passthrough:///"+target, grpc.WithTransportCredentials(insecure.NewCredentials()))
	if err != nil {
		return nil, err
	}
	mu.Lock()
	targets[cc] = target
	mu.Unlock()
	return cc, nil
}

// IntraAdminClient replaces adminservice.NewAdminServiceClient(conn) in intra_proxy_router.go.
func IntraAdminClient(cc grpc.ClientConnInterface) adminservice.AdminServiceClient {
	mu.Lock()
	f := IntraClientFactory
	var target string
	if c, ok := cc.(*grpc.ClientConn); ok {
		target = targets[c]
	}
	mu.Unlock()
	if f == nil {
		return adminservice.NewAdminServiceClient(cc)
	}
	return f(target)
}

// Reset forgets per-run state.
func Reset() {
	mu.Lock()
	IntraClientFactory = nil
	targets = map[*grpc.ClientConn]string{}
	mu.Unlock()
}

// GRPCNewClient replaces grpc.NewClient in cluster_connection.go: same client, but its
// connections are dialled on the simulated network.
func GRPCNewClient(target string, opts ...grpc.DialOption) (*grpc.ClientConn, error) {
	opts = append(opts, grpc.WithContextDialer(simnet.DialContext))
	return grpc.NewClient("passthrough:///"+target, opts...)
}

// ---- TLS endpoints of the mux transport ----

// hsConn is a *tls.Conn whose lazy handshake is serialised through channels. crypto/tls
// guards the handshake with a sync.Mutex; yamux reads and writes a fresh connection from two
// goroutines at once, so one of them waits on that mutex while the other is in the
// handshake's network read - and a goroutine waiting on a sync.Mutex is not "durably
// blocked" for testing/synctest: the bubble never goes idle and the simulation stalls. Here
// the first caller runs Handshake and everybody else waits on a channel. The handshake, its
// configuration and everything after it are crypto/tls's own.
type hsConn struct {
	*tls.Conn
	first chan struct{}
	done  chan struct{}
	err   error
}

func wrapTLS(c *tls.Conn) net.Conn {
	return &hsConn{Conn: c, first: make(chan struct{}, 1), done: make(chan struct{})}
}

func (c *hsConn) handshake() error {
	select {
	case <-c.done:
		return c.err
	default:
	}
	select {
	case c.first <- struct{}{}:
		c.err = c.Conn.Handshake()
		close(c.done)
		return c.err
	case <-c.done:
		return c.err
	}
}

func (c *hsConn) Read(p []byte) (int, error) {
	if err := c.handshake(); err != nil {
		return 0, err
	}
	return c.Conn.Read(p)
}

func (c *hsConn) Write(p []byte) (int, error) {
	if err := c.handshake(); err != nil {
		return 0, err
	}
	return c.Conn.Write(p)
}

// TLSServer replaces tls.Server in transport/mux/receiver.go.
func TLSServer(conn net.Conn, cfg *tls.Config) net.Conn { return wrapTLS(tls.Server(conn, cfg)) }

// TLSClient replaces tls.Client in transport/mux/establisher.go.
func TLSClient(conn net.Conn, cfg *tls.Config) net.Conn { return wrapTLS(tls.Client(conn, cfg)) }
