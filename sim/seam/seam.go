// Package seam holds the replacement constructors that the instrumenter swaps in at the
// environment seams of the proxy package (see cmd/vsim/build.go for the table).
package seam

import (
	"sync"

	"go.temporal.io/server/api/adminservice/v1"
	"google.golang.org/grpc"
	"google.golang.org/grpc/credentials/insecure"

	"vsim/simnet"
)

var (
	mu sync.Mutex
	// IntraClientFactory builds the AdminServiceClient used for intra-proxy links; the
	// world installs it (streams opened through it terminate in the peer instance's real handler).
	IntraClientFactory func(target string) adminservice.AdminServiceClient
	targets            = map[*grpc.ClientConn]string{}
)

// IntraNewClient replaces grpc.NewClient in intra_proxy_router.go: no network is dialled;
// the returned conn is only a handle that remembers its target.
func IntraNewClient(target string, opts ...grpc.DialOption) (*grpc.ClientConn, error) {
	cc, err := grpc.NewClient("passthrough:///"+target, grpc.WithTransportCredentials(insecure.NewCredentials()))
	if err != nil {
		return nil, err
	}
	mu.Lock()
	targets[cc] = target
	mu.Unlock()
	return cc, nil
}

// IntraAdminClient replaces adminservice.NewAdminServiceClient(conn) in intra_proxy_router.go.
func IntraAdminClient(cc grpc.ClientConnInterface) adminservice.AdminServiceClient {
	mu.Lock()
	f := IntraClientFactory
	var target string
	if c, ok := cc.(*grpc.ClientConn); ok {
		target = targets[c]
	}
	mu.Unlock()
	if f == nil {
		return adminservice.NewAdminServiceClient(cc)
	}
	return f(target)
}

// Reset forgets per-run state.
func Reset() {
	mu.Lock()
	IntraClientFactory = nil
	targets = map[*grpc.ClientConn]string{}
	mu.Unlock()
}

// GRPCNewClient replaces grpc.NewClient in cluster_connection.go: same client, but its
// connections are dialled on the simulated network.
func GRPCNewClient(target string, opts ...grpc.DialOption) (*grpc.ClientConn, error) {
	opts = append(opts, grpc.WithContextDialer(simnet.DialContext))
	return grpc.NewClient("passthrough:///"+target, opts...)
}
