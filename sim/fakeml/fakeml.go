// Package fakeml stands in for github.com/hashicorp/memberlist inside the simulation
// (import swap in proxy/shard_manager.go). It offers the API subset the proxy uses and
// turns every delivery (reliable user messages, push/pull state exchange, join / leave /
// update events) into an explicit step the world performs, so that their order, delay,
// duplication and loss are decided by the simulator's tape. The *delegates* that these
// steps call are the proxy's real code.
package fakeml

import (
	"errors"
	"fmt"
	"net"
	"sort"
	"sync"
	"time"
	"vsim/simrt"
)

type Delegate interface {
	NodeMeta(limit int) []byte
	NotifyMsg([]byte)
	GetBroadcasts(overhead, limit int) [][]byte
	LocalState(join bool) []byte
	MergeRemoteState(buf []byte, join bool)
}

type EventDelegate interface {
	NotifyJoin(*Node)
	NotifyLeave(*Node)
	NotifyUpdate(*Node)
}

type Node struct {
	Name string
	Addr net.IP
	Port uint16
	Meta []byte
}

func (n *Node) Address() string { return net.JoinHostPort(n.Addr.String(), fmt.Sprint(n.Port)) }
func (n *Node) String() string  { return n.Name }

type Config struct {
	Name            string
	BindAddr        string
	BindPort        int
	AdvertiseAddr   string
	AdvertisePort   int
	Delegate        Delegate
	Events          EventDelegate
	ProbeTimeout    time.Duration
	ProbeInterval   time.Duration
	DisableTcpPings bool
}

func DefaultLANConfig() *Config {
	return &Config{ProbeTimeout: 500 * time.Millisecond, ProbeInterval: time.Second}
}
func DefaultLocalConfig() *Config {
	return &Config{ProbeTimeout: 200 * time.Millisecond, ProbeInterval: time.Second}
}

// Pending is an undelivered step.
type Pending struct {
	Seq  int
	Kind string // "msg", "join", "leave", "update"
	From string
	To   string
	Data []byte
	Node *Node
}

// Network is the simulated gossip fabric for one run. The world installs it with Use().
type Network struct {
	mu      sync.Mutex
	nodes   map[string]*Memberlist
	byAddr  map[string]*Memberlist
	pending []*Pending
	seq     int
	// Spawn runs f as a simulated task (delegates take locks; they must not run on the scheduler).
	Spawn func(name string, f func())
	// Log records an event in the run's trace.
	Log func(format string, args ...any)
	// evSeq orders delegate invocations; leaveAt[o][l] / mergeAt[o][l] are the sequence numbers of
	// the last NotifyLeave(l) and the last MergeRemoteState(state of l) that completed at node o.
	evSeq int
	Logf  func(format string, args ...any) // optional trace hook
	// DeadProcess, when set, tells whether the calling goroutine belongs to a process the world
	// has crashed (the world knows its tasks' lineage).
	DeadProcess func() bool
	leaveAt     map[string]map[string]int
	mergeAt     map[string]map[string]int
}

func (n *Network) note(tab *map[string]map[string]int, at, about string) {
	n.mu.Lock()
	defer n.mu.Unlock()
	if n.Logf != nil {
		kind := "merge-of"
		if tab == &n.leaveAt {
			kind = "leave-of"
		}
		n.Logf("fakeml: at %s %s %s (event %d)", at, kind, about, n.evSeq+1)
	}
	if *tab == nil {
		*tab = map[string]map[string]int{}
	}
	if (*tab)[at] == nil {
		(*tab)[at] = map[string]int{}
	}
	n.evSeq++
	(*tab)[at][about] = n.evSeq
}

// MergedAfterLeave reports whether node `at` merged a full state of node `left` after it had
// been notified that `left` is gone.
func (n *Network) MergedAfterLeave(at, left string) bool {
	n.mu.Lock()
	defer n.mu.Unlock()
	l := n.leaveAt[at][left]
	return l > 0 && n.mergeAt[at][left] > l
}

var (
	curMu sync.Mutex
	cur   *Network
)

// Use installs the network used by subsequent Create calls.
func Use(n *Network) {
	curMu.Lock()
	cur = n
	curMu.Unlock()
}

func NewNetwork() *Network {
	return &Network{nodes: map[string]*Memberlist{}, byAddr: map[string]*Memberlist{}}
}

type Memberlist struct {
	net      *Network
	cfg      *Config
	self     *Node
	members  map[string]*Node // this node's view (includes itself)
	left     bool
	shutdown bool // Shutdown has returned: the process has released its name and address
	// deadSeen: incarnations (node objects) this observer has been told are gone. memberlist
	// orders alive/dead notices by incarnation: an "alive" for an incarnation known dead is ignored,
	// a new incarnation of the same name overrides the old one.
	deadSeen map[*Node]bool
	// evMu serialises this node's event-delegate notifications: memberlist invokes NotifyJoin /
	// NotifyLeave / NotifyUpdate one at a time (under its node lock), in the order of the
	// state changes
	evMu    sync.Mutex
	crashed bool // process crash: no leave broadcast, nothing in or out any more
}

func Create(cfg *Config) (*Memberlist, error) {
	curMu.Lock()
	n := cur
	curMu.Unlock()
	if n == nil {
		return nil, errors.New("fakeml: no network installed")
	}
	if n.DeadProcess != nil && n.DeadProcess() {
		// a goroutine of a process that has crashed in the meantime: it binds nothing any more
		return nil, errors.New("fakeml: the calling process is gone")
	}
	n.mu.Lock()
	defer n.mu.Unlock()
	if old, dup := n.nodes[cfg.Name]; dup {
		if !old.crashed && !old.shutdown {
			return nil, fmt.Errorf("fakeml: duplicate node %q", cfg.Name)
		}
		// the process comes back under its old name (a restart after a crash): a new incarnation.
		// Notices about the old incarnation that are still under way are void (memberlist orders
		// them by incarnation number and the new incarnation refutes a stale "dead").
		if old.crashed {
			kept := n.pending[:0]
			for _, p := range n.pending {
				if p.Node != nil && p.Node.Name == cfg.Name {
					continue
				}
				kept = append(kept, p)
			}
			n.pending = kept
		}
		for _, tab := range []map[string]map[string]int{n.leaveAt, n.mergeAt} {
			for _, m := range tab {
				delete(m, cfg.Name)
			}
		}
	}
	self := &Node{Name: cfg.Name, Addr: net.ParseIP(cfg.BindAddr), Port: uint16(cfg.BindPort)}
	if self.Addr == nil {
		self.Addr = net.IPv4(127, 0, 0, 1)
	}
	m := &Memberlist{net: n, cfg: cfg, self: self, members: map[string]*Node{cfg.Name: self}, deadSeen: map[*Node]bool{}}
	n.nodes[cfg.Name] = m
	n.byAddr[fmt.Sprintf("%s:%d", cfg.BindAddr, cfg.BindPort)] = m
	return m, nil
}

func (m *Memberlist) LocalNode() *Node { return m.self }

func (m *Memberlist) Members() []*Node {
	m.net.mu.Lock()
	defer m.net.mu.Unlock()
	names := make([]string, 0, len(m.members))
	for k := range m.members {
		names = append(names, k)
	}
	sort.Strings(names)
	out := make([]*Node, 0, len(names))
	for _, k := range names {
		out = append(out, m.members[k])
	}
	return out
}

func (m *Memberlist) NumMembers() int {
	m.net.mu.Lock()
	defer m.net.mu.Unlock()
	return len(m.members)
}

func (n *Network) enqueue(p *Pending) {
	n.seq++
	p.Seq = n.seq
	n.pending = append(n.pending, p)
}

// Join contacts the given addresses: membership views are merged and a push/pull state
// exchange with each contacted node happens synchronously, as in memberlist.
func (m *Memberlist) Join(addrs []string) (int, error) {
	ok := 0
	var lastErr error
	for _, a := range addrs {
		m.net.mu.Lock()
		peer := m.net.byAddr[a]
		if peer == nil || peer.left || m.left || peer == m {
			m.net.mu.Unlock()
			lastErr = fmt.Errorf("fakeml: cannot reach %s", a)
			continue
		}
		// merge views both ways; everybody who learns about a new node gets a join event
		pnames := make([]string, 0, len(peer.members))
		for name := range peer.members {
			pnames = append(pnames, name)
		}
		sort.Strings(pnames)
		for _, name := range pnames {
			nd := peer.members[name]
			// a peer that has not noticed a failure yet still lists the dead incarnation; a node that
			// has been told it is gone does not take it back from there, and nobody takes an old
			// incarnation for a name whose current incarnation is another
			if m.deadSeen[nd] {
				continue
			}
			if cur := m.net.nodes[name]; cur != nil && cur.self != nd {
				continue
			}
			if have, known := m.members[name]; !known || have != nd {
				m.members[name] = nd
				m.net.enqueue(&Pending{Kind: "join", To: m.cfg.Name, Node: nd})
			}
		}
		for _, other := range m.net.sortedNodes() {
			if other == m || other.left {
				continue
			}
			if _, inCluster := peer.members[other.cfg.Name]; !inCluster {
				continue
			}
			have, known := other.members[m.cfg.Name]
			known = known && have == m.self // an older incarnation under the same name does not count
			if m.net.Logf != nil {
				m.net.Logf("fakeml: join of %s via %s: %s knows this incarnation already: %v", m.cfg.Name, peer.cfg.Name, other.cfg.Name, known)
			}
			if !known {
				other.members[m.cfg.Name] = m.self
				m.net.enqueue(&Pending{Kind: "join", To: other.cfg.Name, Node: m.self})
			}
		}
		m.net.mu.Unlock()
		// push/pull (join=true); a node that crashes while the exchange is under way neither
		// delivers nor receives the rest of it
		gone := func() bool {
			m.net.mu.Lock()
			defer m.net.mu.Unlock()
			return m.crashed || peer.crashed
		}
		mine := m.cfg.Delegate.LocalState(true)
		theirs := peer.cfg.Delegate.LocalState(true)
		if gone() {
			lastErr = fmt.Errorf("fakeml: connection to %s lost", a)
			continue
		}
		peer.cfg.Delegate.MergeRemoteState(mine, true)
		m.net.note(&m.net.mergeAt, peer.cfg.Name, m.cfg.Name)
		if gone() {
			lastErr = fmt.Errorf("fakeml: connection to %s lost", a)
			continue
		}
		m.cfg.Delegate.MergeRemoteState(theirs, true)
		m.net.note(&m.net.mergeAt, m.cfg.Name, peer.cfg.Name)
		ok++
	}
	if ok == 0 && lastErr != nil {
		return 0, lastErr
	}
	return ok, nil
}

func (m *Memberlist) Leave(timeout time.Duration) error {
	m.net.mu.Lock()
	defer m.net.mu.Unlock()
	if m.left {
		return nil
	}
	m.left = true
	for _, other := range m.net.sortedNodes() {
		if other == m || other.left {
			continue
		}
		if _, known := other.members[m.cfg.Name]; known {
			m.net.enqueue(&Pending{Kind: "leave", To: other.cfg.Name, Node: m.self})
		}
	}
	// messages addressed to a node that left are lost
	kept := m.net.pending[:0]
	for _, p := range m.net.pending {
		if p.To == m.cfg.Name {
			continue
		}
		kept = append(kept, p)
	}
	m.net.pending = kept
	return nil
}

func (m *Memberlist) Shutdown() error {
	m.net.mu.Lock()
	m.left = true
	m.shutdown = true
	delete(m.net.byAddr, fmt.Sprintf("%s:%d", m.cfg.BindAddr, m.cfg.BindPort))
	m.net.mu.Unlock()
	return nil
}

func (m *Memberlist) UpdateNode(timeout time.Duration) error {
	meta := m.cfg.Delegate.NodeMeta(512)
	m.net.mu.Lock()
	defer m.net.mu.Unlock()
	if m.left {
		return errors.New("fakeml: node has left")
	}
	m.self.Meta = meta
	for _, other := range m.net.sortedNodes() {
		if other == m || other.left {
			continue
		}
		if _, known := other.members[m.cfg.Name]; known {
			m.net.enqueue(&Pending{Kind: "update", To: other.cfg.Name, Node: m.self})
		}
	}
	return nil
}

// SendReliable queues a user message for the node; it fails if the node is not reachable.
func (m *Memberlist) SendReliable(to *Node, msg []byte) error {
	m.net.mu.Lock()
	defer m.net.mu.Unlock()
	peer := m.net.nodes[to.Name]
	if m.left || peer == nil || peer.left {
		return fmt.Errorf("fakeml: %s unreachable", to.Name)
	}
	m.net.enqueue(&Pending{Kind: "msg", From: m.cfg.Name, To: to.Name, Data: append([]byte(nil), msg...)})
	return nil
}

// sortedNodes returns the network's nodes in name order (callers hold n.mu): every place that
// enqueues steps iterates in this order so that step sequence numbers are reproducible.
func (n *Network) sortedNodes() []*Memberlist {
	names := make([]string, 0, len(n.nodes))
	for k := range n.nodes {
		names = append(names, k)
	}
	sort.Strings(names)
	out := make([]*Memberlist, 0, len(names))
	for _, k := range names {
		out = append(out, n.nodes[k])
	}
	return out
}

// ---- world-side controls ----

// PendingSteps lists the undelivered steps (stable order).
func (n *Network) PendingSteps() []*Pending {
	n.mu.Lock()
	defer n.mu.Unlock()
	return append([]*Pending(nil), n.pending...)
}

// Deliver performs one pending step (optionally keeping it queued = duplication).
func (n *Network) Deliver(seq int, keep bool) {
	n.mu.Lock()
	var p *Pending
	for i, q := range n.pending {
		if q.Seq == seq {
			p = q
			if !keep {
				n.pending = append(n.pending[:i:i], n.pending[i+1:]...)
			}
			break
		}
	}
	var dst *Memberlist
	if p != nil {
		dst = n.nodes[p.To]
	}
	n.mu.Unlock()
	if p == nil || dst == nil || dst.left {
		return
	}
	name := fmt.Sprintf("ml-%s-%s#%d", p.Kind, p.To, p.Seq)
	switch p.Kind {
	case "msg":
		n.Spawn(name, func() { dst.cfg.Delegate.NotifyMsg(p.Data) })
	case "join":
		// memberlist orders a node's alive and dead notices by incarnation: once an observer has
		// been told that a node is gone, an older "alive" for it is ignored
		n.mu.Lock()
		stale := dst.deadSeen[p.Node]
		n.mu.Unlock()
		if stale {
			return
		}
		if dst.cfg.Events != nil {
			n.Spawn(name, func() {
				simrt.Lock(-1, &dst.evMu)
				defer simrt.Unlock(&dst.evMu)
				// notifications reach the event delegate in the order of the state changes: if the
				// observer has meanwhile been told that the node is gone, this "alive" is the older one
				n.mu.Lock()
				late := dst.deadSeen[p.Node]
				n.mu.Unlock()
				if late {
					return
				}
				dst.cfg.Events.NotifyJoin(p.Node)
			})
		}
	case "update":
		if dst.cfg.Events != nil {
			n.Spawn(name, func() {
				simrt.Lock(-1, &dst.evMu)
				defer simrt.Unlock(&dst.evMu)
				dst.cfg.Events.NotifyUpdate(p.Node)
			})
		}
	case "leave":
		// a notice about an incarnation that has been replaced since (the process was started
		// again under its name) is void
		n.mu.Lock()
		if have, ok := dst.members[p.Node.Name]; ok && have != p.Node {
			// the observer already holds a newer incarnation of that name
			dst.deadSeen[p.Node] = true
			n.mu.Unlock()
			return
		}
		dst.deadSeen[p.Node] = true
		delete(dst.members, p.Node.Name)
		n.mu.Unlock()
		if dst.cfg.Events != nil {
			n.Spawn(name, func() {
				simrt.Lock(-1, &dst.evMu)
				defer simrt.Unlock(&dst.evMu)
				n.mu.Lock()
				replaced := false
				if have, ok := dst.members[p.Node.Name]; ok && have != p.Node {
					replaced = true // a newer incarnation joined at this observer in the meantime
				}
				n.mu.Unlock()
				if replaced {
					return
				}
				// sequence number taken when the notification starts: a merge whose write lands after
				// the notification's delete necessarily completes after this point
				n.note(&n.leaveAt, dst.cfg.Name, p.Node.Name)
				dst.cfg.Events.NotifyLeave(p.Node)
			})
		}
	}
}

// Drop discards a pending step (message loss; only used for steps whose loss memberlist permits).
func (n *Network) Drop(seq int) {
	n.mu.Lock()
	for i, q := range n.pending {
		if q.Seq == seq {
			n.pending = append(n.pending[:i:i], n.pending[i+1:]...)
			break
		}
	}
	n.mu.Unlock()
}

// PushPull performs a full state exchange between two live nodes that know each other.
func (n *Network) PushPull(a, b string) bool {
	n.mu.Lock()
	na, nb := n.nodes[a], n.nodes[b]
	ok := na != nil && nb != nil && !na.left && !nb.left
	if ok {
		_, k1 := na.members[b]
		_, k2 := nb.members[a]
		ok = k1 && k2
	}
	n.mu.Unlock()
	if !ok {
		return false
	}
	n.Spawn(fmt.Sprintf("ml-pushpull-%s-%s", a, b), func() {
		// the exchange runs over a connection between two live processes: a node that has
		// crashed in the meantime neither answers nor receives
		gone := func() bool {
			n.mu.Lock()
			defer n.mu.Unlock()
			return na.crashed || nb.crashed
		}
		if gone() {
			return
		}
		sa := na.cfg.Delegate.LocalState(false)
		sb := nb.cfg.Delegate.LocalState(false)
		if gone() {
			return
		}
		nb.cfg.Delegate.MergeRemoteState(sa, false)
		n.note(&n.mergeAt, b, a)
		if gone() {
			return
		}
		na.cfg.Delegate.MergeRemoteState(sb, false)
		n.note(&n.mergeAt, a, b)
	})
	return true
}

// Crash removes a node from the fabric without any leave broadcast (process crash): messages
// addressed to it are lost, its own sends fail; the others learn through DeclareDead.
func (n *Network) Crash(name string) {
	n.mu.Lock()
	defer n.mu.Unlock()
	m := n.nodes[name]
	if m == nil || m.left {
		return
	}
	m.left = true
	m.crashed = true
	delete(n.byAddr, fmt.Sprintf("%s:%d", m.cfg.BindAddr, m.cfg.BindPort))
	kept := n.pending[:0]
	for _, p := range n.pending {
		if p.To == name {
			continue
		}
		kept = append(kept, p)
	}
	n.pending = kept
}

// DeclareDead makes `at` believe `dead` has failed (failure-detector verdict).
func (n *Network) DeclareDead(at, dead string) {
	n.mu.Lock()
	na, nd := n.nodes[at], n.nodes[dead]
	if na == nil || nd == nil {
		n.mu.Unlock()
		return
	}
	if _, known := na.members[dead]; !known {
		n.mu.Unlock()
		return
	}
	n.enqueue(&Pending{Kind: "leave", To: at, Node: nd.self})
	n.mu.Unlock()
}

// NodeNames lists created nodes (sorted) and whether each has left.
func (n *Network) NodeNames() (names []string, left map[string]bool) {
	n.mu.Lock()
	defer n.mu.Unlock()
	left = map[string]bool{}
	for k, v := range n.nodes {
		names = append(names, k)
		left[k] = v.left
	}
	sort.Strings(names)
	return
}

// Knows reports whether node a has node b in its membership view.
// IsShutdown: the node of that name has left and shut down (its name may be taken by a new process).
func (n *Network) IsShutdown(name string) bool {
	n.mu.Lock()
	defer n.mu.Unlock()
	m := n.nodes[name]
	return m != nil && m.shutdown
}

func (n *Network) Knows(a, b string) bool {
	n.mu.Lock()
	defer n.mu.Unlock()
	na := n.nodes[a]
	if na == nil {
		return false
	}
	_, ok := na.members[b]
	return ok
}
