package main

import (
	"encoding/json"
	"fmt"
	"os"
	"os/exec"
	"path/filepath"
	"strings"
	"time"

	"vsim/instrument"
)

const repoRoot = "/repo"
const modPath = "github.com/temporalio/s2s-proxy"

func verifRoot() string {
	if v := os.Getenv("VSIM_ROOT"); v != "" {
		return v
	}
	exe, err := os.Executable()
	if err == nil {
		d := filepath.Dir(filepath.Dir(exe)) // <root>/bin/vsim
		if _, err := os.Stat(filepath.Join(d, "sim", "go.mod")); err == nil {
			return d
		}
	}
	return "/verif"
}

func instrConfig(outDir string) *instrument.Config {
	root := verifRoot()
	sim := filepath.Join(root, "sim")
	return &instrument.Config{
		RepoRoot:   repoRoot,
		HarnessDir: sim,
		OutDir:     outDir,
		Files: map[string][]string{
			modPath + "/proxy": {
				"proxy_streams.go", "shard_manager.go", "admin_stream_transfer.go", "adminservice.go",
				"intra_proxy_router.go", "replication_stream_observer.go", "cluster_connection.go",
			},
			modPath + "/transport/mux": {
				"provider.go", "multi_mux_manager.go", "establisher.go", "receiver.go", "grpc_mux_manager.go", "observer.go",
			},
			modPath + "/transport/mux/session": {"managed_mux_session.go"},
			modPath + "/transport/grpcutil":    {"multi_client_conn.go"},
		},
		Swaps: []instrument.ImportSwap{
			{File: "proxy/shard_manager.go", Old: "github.com/hashicorp/memberlist", New: "vsim/fakeml"},
		},
		Seams: []instrument.Seam{
			{File: "proxy/intra_proxy_router.go", Pkg: "google.golang.org/grpc", Name: "NewClient", NewPkg: "vsim/seam", NewName: "IntraNewClient"},
			{File: "proxy/intra_proxy_router.go", Pkg: "go.temporal.io/server/api/adminservice/v1", Name: "NewAdminServiceClient", NewPkg: "vsim/seam", NewName: "IntraAdminClient"},
			{File: "proxy/cluster_connection.go", Pkg: "net", Name: "Listen", NewPkg: "vsim/simnet", NewName: "Listen"},
			{File: "proxy/cluster_connection.go", Pkg: "google.golang.org/grpc", Name: "NewClient", NewPkg: "vsim/seam", NewName: "GRPCNewClient"},
			{File: "transport/mux/receiver.go", Pkg: "net", Name: "Listen", NewPkg: "vsim/simnet", NewName: "Listen"},
			{File: "transport/mux/establisher.go", Pkg: "net", Name: "DialTimeout", NewPkg: "vsim/simnet", NewName: "DialTimeout"},
			{File: "transport/mux/receiver.go", Pkg: "crypto/tls", Name: "Server", NewPkg: "vsim/seam", NewName: "TLSServer"},
			{File: "transport/mux/establisher.go", Pkg: "crypto/tls", Name: "Client", NewPkg: "vsim/seam", NewName: "TLSClient"},
		},
		InPkg: map[string]string{
			modPath + "/proxy":              filepath.Join(sim, "inpkg", "proxy"),
			modPath + "/transport/mux":      filepath.Join(sim, "inpkg", "mux"),
			modPath + "/transport/grpcutil": filepath.Join(sim, "inpkg", "grpcutil"),
		},
		BlockingFns: map[string]map[string]bool{
			"sync":                                      {"Wait": true},
			"golang.org/x/sync/semaphore":               {"Acquire": true},
			"github.com/hashicorp/yamux":                {"Ping": true, "Close": true, "Open": true, "Accept": true, "Client": true, "Server": true, "GoAway": true},
			"go.temporal.io/server/common/backoff":      {"ThrottleRetry": true, "ThrottleRetryContext": true},
			"net":                                       {"Accept": true, "Close": true, "Read": true, "Write": true},
			"vsim/simnet":                               {"Listen": true, "DialTimeout": true},
			"google.golang.org/grpc":                    {"Serve": true, "GracefulStop": true, "Stop": true, "Close": true, "Invoke": true, "NewStream": true, "Connect": true},
			"google.golang.org/grpc/resolver/manual":    {"UpdateState": true},
			"go.temporal.io/server/api/adminservice/v1": {"Recv": true, "Send": true, "CloseSend": true, "StreamWorkflowReplicationMessages": true, "DescribeCluster": true},
			"vsim/fakeml":                               {"Create": true, "Join": true, "Leave": true, "Shutdown": true, "UpdateNode": true, "SendReliable": true},
		},
		KnobFuncs: map[string]bool{"newProxyIDRingBuffer": true},
	}
}

type buildInfo struct {
	Binary string             `json:"binary"`
	Report *instrument.Report `json:"report"`
	WallS  float64            `json:"wall_s"`
}

// buildWorlds instruments /repo's current tree and compiles the worlds test binary.
// The scratch directory is removed before returning; the binary stays under <root>/.work.
func buildWorlds(tag string) (*buildInfo, error) {
	start := time.Now()
	root := verifRoot()
	work := filepath.Join(root, ".work")
	if err := os.MkdirAll(work, 0o755); err != nil {
		return nil, err
	}
	scratch, err := os.MkdirTemp(work, "instr-")
	if err != nil {
		return nil, err
	}
	defer os.RemoveAll(scratch)
	cfg := instrConfig(scratch)
	rep, err := instrument.Run(cfg)
	if err != nil {
		return nil, err
	}
	if os.Getenv("VSIM_KEEP_SRC") != "" {
		keep := filepath.Join(work, "last-src")
		os.RemoveAll(keep)
		exec.Command("cp", "-r", filepath.Join(scratch, "src"), keep).Run()
	}
	bin := filepath.Join(work, fmt.Sprintf("worlds-%s-%d.test", tag, os.Getpid()))
	cmd := exec.Command("go", "test", "-c", "-vet=off", "-overlay="+filepath.Join(scratch, "overlay.json"), "-o", bin, "./worlds")
	cmd.Dir = filepath.Join(root, "sim")
	cmd.Env = append(cleanEnv(), "GOFLAGS=-mod=mod", "GOPROXY=off")
	out, err := cmd.CombinedOutput()
	if err != nil {
		return nil, fmt.Errorf("go test -c failed: %v\n%s", err, tail(string(out), 6000))
	}
	return &buildInfo{Binary: bin, Report: rep, WallS: time.Since(start).Seconds()}, nil
}

// cleanEnv drops settings that break the offline toolchain switch in this sandbox.
func cleanEnv() []string {
	var env []string
	for _, e := range os.Environ() {
		if strings.HasPrefix(e, "GOSUMDB=") || strings.HasPrefix(e, "GOTOOLCHAIN=") || strings.HasPrefix(e, "GOFLAGS=") || strings.HasPrefix(e, "GOPROXY=") {
			continue
		}
		env = append(env, e)
	}
	return env
}

func tail(s string, n int) string {
	if len(s) > n {
		return "..." + s[len(s)-n:]
	}
	return s
}

func cmdBuild(args []string) int {
	bi, err := buildWorlds("manual")
	if err != nil {
		fmt.Fprintln(os.Stderr, "BUILD-ERROR:", err)
		return 2
	}
	b, _ := json.MarshalIndent(bi, "", " ")
	fmt.Println(string(b))
	return 0
}
