package main

import (
	"bufio"
	"bytes"
	"encoding/json"
	"flag"
	"fmt"
	"os"
	"os/exec"
	"path/filepath"
	"runtime"
	"sort"
	"strconv"
	"strings"
	"sync"
	"time"
)

// ---- result records (mirror of worlds.Result, loosely typed) ----

type violation struct {
	Property string `json:"property"`
	Clause   string `json:"clause"`
	Sig      string `json:"sig,omitempty"`
	Detail   string `json:"detail"`
	Decision int    `json:"decision"`
	VTimeMs  int64  `json:"vtime_ms"`
}

type crashRec struct {
	Task  string
	Value string
	Stack string
}

type result struct {
	Seed       uint64            `json:"seed"`
	World      string            `json:"world"`
	Profile    string            `json:"profile"`
	Config     json.RawMessage   `json:"config"`
	Violations []violation       `json:"violations"`
	Crash      *crashRec         `json:"crash"`
	Stats      map[string]int    `json:"stats"`
	Probes     map[string]int    `json:"probes"`
	Faults     map[string]int    `json:"faults"`
	VirtualMs  int64             `json:"virtual_ms"`
	TraceHash  string            `json:"trace_hash"`
	SchedHash  string            `json:"sched_hash"`
	Nontrivial bool              `json:"nontrivial"`
	Live       []string          `json:"live"`
	Trace      []string          `json:"trace"`
	Tape       []uint32          `json:"tape"`
	Notes      map[string]string `json:"notes"`
	ToolError  string            `json:"tool_error"`
}

// propSpec describes how a property is checked.
type propSpec struct {
	ID                      string
	Profiles                []string // worker profiles that serve this property
	Level                   string   // exploration | fault_enumeration
	QuickRuns, ThoroughRuns int
	QuickWall, ThoroughWall time.Duration
	Rule                    string
	Chunk                   int // seeds per worker process (1 where a library keeps cross-run state, e.g. yamux timer pool)
	Real                    []string
	Stub                    []string
	Assume                  []string
}

func (p *propSpec) owns(v violation) bool { return v.Property == p.ID }

var specs = map[string]*propSpec{}

func addSpec(p *propSpec) { specs[p.ID] = p }

// ---- worker invocation ----

type workerOut struct {
	results []*result
	err     error
	stderr  string
}

func runWorker(bin string, env []string, timeout time.Duration) workerOut {
	cmd := exec.Command(bin, "-test.run", "^TestWorker$", "-test.timeout", "0")
	cmd.Env = append(os.Environ(), env...)
	var stderr bytes.Buffer
	cmd.Stderr = &stderr
	stdout, err := cmd.StdoutPipe()
	if err != nil {
		return workerOut{err: err}
	}
	if err := cmd.Start(); err != nil {
		return workerOut{err: err}
	}
	done := make(chan struct{})
	var out workerOut
	go func() {
		defer close(done)
		sc := bufio.NewScanner(stdout)
		sc.Buffer(make([]byte, 1<<20), 1<<28)
		for sc.Scan() {
			line := sc.Text()
			if !strings.HasPrefix(line, "RESULT ") {
				continue
			}
			var r result
			if err := json.Unmarshal([]byte(line[7:]), &r); err != nil {
				out.err = fmt.Errorf("bad RESULT line: %v", err)
				continue
			}
			out.results = append(out.results, &r)
		}
	}()
	timer := time.AfterFunc(timeout, func() { _ = cmd.Process.Kill() })
	<-done
	werr := cmd.Wait()
	if !timer.Stop() {
		out.err = fmt.Errorf("worker exceeded %v (watchdog)", timeout)
	} else if werr != nil && out.err == nil {
		out.err = fmt.Errorf("worker exited: %v", werr)
	}
	out.stderr = tail(stderr.String(), 4000)
	return out
}

// workerWatchdog bounds one worker process: generous per run, never the whole budget.
func workerWatchdog(runs int) time.Duration {
	d := 60*time.Second + time.Duration(runs)*4*time.Second
	if v := os.Getenv("VSIM_WATCHDOG_S"); v != "" {
		if n, err := strconv.Atoi(v); err == nil {
			d = time.Duration(n) * time.Second
		}
	}
	return d
}

// ---- replay files ----

type replayFile struct {
	Property    string     `json:"property"`
	Profile     string     `json:"profile"`
	Seed        uint64     `json:"seed"`
	Class       string     `json:"class"`
	Fingerprint string     `json:"build_fingerprint"`
	Config      any        `json:"config"`
	Tape        []uint32   `json:"tape"`
	Violation   *violation `json:"violation"`
	Crash       *crashRec  `json:"crash,omitempty"`
	Trace       []string   `json:"trace_tail"`
	Note        string     `json:"note"`
}

func writeReplayInput(dir string, seed uint64, tape []uint32) (string, error) {
	f, err := os.CreateTemp(dir, "tape-*.json")
	if err != nil {
		return "", err
	}
	defer f.Close()
	return f.Name(), json.NewEncoder(f).Encode(map[string]any{"seed": seed, "tape": tape})
}

// replayTape runs one tape in a fresh worker process.
func replayTape(bin, profile, dir string, seed uint64, tape []uint32) (*result, error) {
	p, err := writeReplayInput(dir, seed, tape)
	if err != nil {
		return nil, err
	}
	defer os.Remove(p)
	out := runWorker(bin, []string{"VSIM_PROFILE=" + profile, "VSIM_REPLAY=" + p}, 90*time.Second)
	if len(out.results) != 1 {
		return nil, fmt.Errorf("replay produced %d results (err=%v, stderr=%s)", len(out.results), out.err, out.stderr)
	}
	return out.results[0], nil
}

func classOf(p *propSpec, r *result) (string, *violation) {
	for i := range r.Violations {
		if p.owns(r.Violations[i]) {
			v := r.Violations[i]
			return v.Property + "/" + v.Clause + "/" + v.Sig, &v
		}
	}
	return "", nil
}

// hasClass reports whether the run contains an owned violation of the class.
func hasClass(p *propSpec, r *result, class string) *violation {
	for i := range r.Violations {
		v := r.Violations[i]
		if p.owns(v) && v.Property+"/"+v.Clause+"/"+v.Sig == class {
			return &v
		}
	}
	return nil
}

// minimise shrinks the tape while the same violation class persists. Candidates are
// evaluated in fresh processes, several at a time.
func minimise(bin string, p *propSpec, profile, dir string, seed uint64, tape []uint32, class string, budget time.Duration) []uint32 {
	deadline := time.Now().Add(budget)
	best := append([]uint32(nil), tape...)
	par := runtime.NumCPU()
	if par > 16 {
		par = 16
	}
	try := func(cands [][]uint32) int {
		type res struct {
			i  int
			ok bool
		}
		ch := make(chan res, len(cands))
		sem := make(chan struct{}, par)
		for i, c := range cands {
			sem <- struct{}{}
			go func(i int, c []uint32) {
				defer func() { <-sem }()
				r, err := replayTape(bin, profile, dir, seed, c)
				ok := false
				if err == nil && r.ToolError == "" {
					ok = hasClass(p, r, class) != nil
				}
				ch <- res{i, ok}
			}(i, c)
		}
		first := -1
		for range cands {
			r := <-ch
			if r.ok && (first == -1 || r.i < first) {
				first = r.i
			}
		}
		return first
	}
	// 1. truncate (an exhausted tape reads as zeros = bland choices)
	for time.Now().Before(deadline) {
		var cands [][]uint32
		for _, keep := range []int{len(best) / 8, len(best) / 4, len(best) / 2, len(best) * 3 / 4, len(best) * 7 / 8, len(best) * 15 / 16} {
			if keep < len(best) {
				cands = append(cands, append([]uint32(nil), best[:keep]...))
			}
		}
		if len(cands) == 0 {
			break
		}
		i := try(cands)
		if i < 0 {
			break
		}
		best = cands[i]
	}
	// 2. delete chunks / zero chunks, halving the chunk size
	for chunk := len(best) / 2; chunk >= 1 && time.Now().Before(deadline); {
		improved := false
		for start := 0; start < len(best) && time.Now().Before(deadline); {
			var cands [][]uint32
			var starts []int
			var kinds []int
			for k := 0; k < par/2+1 && start+k*chunk < len(best); k++ {
				s := start + k*chunk
				e := s + chunk
				if e > len(best) {
					e = len(best)
				}
				del := append(append([]uint32(nil), best[:s]...), best[e:]...)
				cands = append(cands, del)
				starts = append(starts, s)
				kinds = append(kinds, 0)
				zero := append([]uint32(nil), best...)
				nz := false
				for j := s; j < e; j++ {
					if zero[j] != 0 {
						nz = true
					}
					zero[j] = 0
				}
				if nz {
					cands = append(cands, zero)
					starts = append(starts, s)
					kinds = append(kinds, 1)
				}
			}
			i := try(cands)
			if i >= 0 {
				best = cands[i]
				improved = true
				if kinds[i] == 1 {
					start = starts[i] + chunk
				} else {
					start = starts[i]
				}
			} else {
				start += (par/2 + 1) * chunk
			}
		}
		if !improved || chunk == 1 {
			if chunk == 1 {
				break
			}
		}
		chunk /= 2
	}
	// trailing zeros are implicit
	for len(best) > 0 && best[len(best)-1] == 0 {
		best = best[:len(best)-1]
	}
	return best
}

// ---- known findings ----

type knownFinding struct {
	Property string `json:"property"`
	Clause   string `json:"clause"`
	Sig      string `json:"sig"`
	What     string `json:"what"`
	Status   string `json:"status"` // "known" or "fixed"
	Commit   string `json:"commit,omitempty"`
}

func loadKnown(root string) []knownFinding {
	b, err := os.ReadFile(filepath.Join(root, "known_findings.json"))
	if err != nil {
		return nil
	}
	var f struct {
		Findings []knownFinding `json:"findings"`
	}
	if json.Unmarshal(b, &f) != nil {
		return nil
	}
	return f.Findings
}

func matchKnown(kf []knownFinding, v *violation) *knownFinding {
	for i := range kf {
		k := &kf[i]
		if k.Status == "known" && k.Property == v.Property && k.Clause == v.Clause && k.Sig == v.Sig && k.Sig != "" {
			return k
		}
	}
	return nil
}

// ---- evidence ----

type evidence struct {
	PropertyID  string         `json:"property_id"`
	Tier        string         `json:"tier"`
	Seed        int64          `json:"seed"`
	Level       string         `json:"level"`
	Coverage    map[string]any `json:"coverage"`
	Assumptions []string       `json:"assumptions"`
	WallS       float64        `json:"wall_s"`
	Violations  int            `json:"violations"`
}

// ---- the check command ----

func cmdCheck(args []string) int {
	fs := flag.NewFlagSet("check", flag.ContinueOnError)
	tier := fs.String("tier", "", "quick|thorough")
	runsFlag := fs.Int("runs", 0, "override number of runs")
	wallFlag := fs.Duration("wall", 0, "override wall budget")
	workers := fs.Int("workers", 0, "worker processes")
	if len(args) < 1 {
		fmt.Fprintln(os.Stderr, "usage: vsim check <property> [--tier quick|thorough]")
		return 2
	}
	id := args[0]
	if err := fs.Parse(args[1:]); err != nil {
		return 2
	}
	spec := specs[id]
	if spec == nil {
		fmt.Fprintf(os.Stderr, "no check for property %s\n", id)
		return 2
	}
	if *tier == "" {
		*tier = os.Getenv("VERIF_TIER")
	}
	if *tier == "" {
		*tier = "quick"
	}
	baseSeed := int64(1)
	if v := os.Getenv("VERIF_SEED"); v != "" {
		if n, err := strconv.ParseInt(v, 10, 64); err == nil {
			baseSeed = n
		}
	}
	runs, wall := spec.QuickRuns, spec.QuickWall
	if *tier == "thorough" {
		runs, wall = spec.ThoroughRuns, spec.ThoroughWall
	}
	if *runsFlag > 0 {
		runs = *runsFlag
	}
	if *wallFlag > 0 {
		wall = *wallFlag
	}
	nw := *workers
	if nw == 0 {
		nw = runtime.NumCPU()
		if nw > 16 {
			nw = 16
		}
	}
	start := time.Now()
	root := verifRoot()
	fmt.Printf("vsim check %s tier=%s VERIF_SEED=%d runs<=%d wall<=%v workers=%d\n", id, *tier, baseSeed, runs, wall, nw)

	bi, err := buildWorlds(id)
	if err != nil {
		fmt.Fprintln(os.Stderr, "TOOL-ERROR (build/instrumentation):", err)
		return 2
	}
	defer os.Remove(bi.Binary)
	fmt.Printf("built %s in %.1fs (instrumented fingerprint %s)\n", filepath.Base(bi.Binary), bi.WallS, bi.Report.Fingerprint)
	scratch, err := os.MkdirTemp(filepath.Join(root, ".work"), "run-")
	if err != nil {
		fmt.Fprintln(os.Stderr, "TOOL-ERROR:", err)
		return 2
	}
	defer os.RemoveAll(scratch)

	// seed space: VERIF_SEED selects a disjoint block of seeds
	seed0 := uint64(baseSeed)*1_000_003 + 17
	chunk := 25
	if spec.Chunk > 0 {
		chunk = spec.Chunk
	}
	type job struct {
		profile string
		start   uint64
		count   int
	}
	var jobs []job
	perProfile := runs / len(spec.Profiles)
	if perProfile < 1 {
		perProfile = 1
	}
	for pi, prof := range spec.Profiles {
		for off := 0; off < perProfile; off += chunk {
			c := chunk
			if off+c > perProfile {
				c = perProfile - off
			}
			jobs = append(jobs, job{prof, seed0 + uint64(pi)*10_000_000 + uint64(off), c})
		}
	}
	var mu sync.Mutex
	var all []*result
	var toolErrs []string
	jobCh := make(chan job)
	var wg sync.WaitGroup
	deadline := start.Add(wall)
	for i := 0; i < nw; i++ {
		wg.Add(1)
		go func() {
			defer wg.Done()
			for j := range jobCh {
				if time.Now().After(deadline) {
					continue
				}
				out := runWorker(bi.Binary, []string{
					"VSIM_PROFILE=" + j.profile,
					fmt.Sprintf("VSIM_SEEDS=%d:%d", j.start, j.count),
					fmt.Sprintf("VSIM_WALL_MS=%d", time.Until(deadline).Milliseconds()+2000),
				}, workerWatchdog(j.count))
				mu.Lock()
				all = append(all, out.results...)
				if out.err != nil {
					toolErrs = append(toolErrs, fmt.Sprintf("profile %s seeds %d+%d: %v\n%s", j.profile, j.start, j.count, out.err, out.stderr))
				}
				mu.Unlock()
			}
		}()
	}
	// round-robin across profiles
	byProf := map[string][]job{}
	for _, j := range jobs {
		byProf[j.profile] = append(byProf[j.profile], j)
	}
	for k := 0; ; k++ {
		any := false
		for _, prof := range spec.Profiles {
			if k < len(byProf[prof]) {
				jobCh <- byProf[prof][k]
				any = true
			}
		}
		if !any {
			break
		}
	}
	close(jobCh)
	wg.Wait()

	sort.Slice(all, func(i, j int) bool {
		if all[i].Profile != all[j].Profile {
			return all[i].Profile < all[j].Profile
		}
		return all[i].Seed < all[j].Seed
	})
	for _, r := range all {
		if r.ToolError != "" {
			toolErrs = append(toolErrs, fmt.Sprintf("seed %d profile %s: %s", r.Seed, r.Profile, r.ToolError))
		}
	}
	if len(all) == 0 {
		toolErrs = append(toolErrs, "no runs completed")
	}

	// ---- violations: group by class, lowest seed per class ----
	known := loadKnown(root)
	type hit struct {
		r     *result
		v     *violation
		class string
	}
	classes := map[string]*hit{}
	classRuns := map[string]int{}
	nviol := 0
	for _, r := range all {
		seen := map[string]bool{}
		for i := range r.Violations {
			v := &r.Violations[i]
			if !spec.owns(*v) {
				continue
			}
			cl := v.Property + "/" + v.Clause + "/" + v.Sig
			if seen[cl] {
				continue
			}
			seen[cl] = true
			nviol++
			classRuns[cl]++
			if h := classes[cl]; h == nil || r.Seed < h.r.Seed {
				classes[cl] = &hit{r, v, cl}
			}
		}
	}
	rc := 0
	var classNames []string
	for cl, h := range classes {
		if h != nil {
			classNames = append(classNames, cl)
		}
	}
	sort.Strings(classNames)
	for _, cl := range classNames {
		fmt.Printf("class %s: %d of %d runs (first seed %d)\n", cl, classRuns[cl], len(all), classes[cl].r.Seed)
	}
	var reported []map[string]any
	minBudget := 60 * time.Second
	if *tier == "thorough" {
		minBudget = 5 * time.Minute
	}
	for _, cl := range classNames {
		h := classes[cl]
		if kf := matchKnown(known, h.v); kf != nil {
			fmt.Printf("KNOWN-FINDING: property=%s %s (clause %s, e.g. seed %d: %s)\n", id, kf.What, h.v.Clause, h.r.Seed, h.v.Detail)
			reported = append(reported, map[string]any{"class": cl, "known_finding": kf.What, "seed": h.r.Seed, "runs": classRuns[cl]})
			continue
		}
		// reproduce from the recorded tape, minimise, replay once more, then report
		tape := h.r.Tape
		rr, err := replayTape(bi.Binary, h.r.Profile, scratch, h.r.Seed, tape)
		if err != nil {
			toolErrs = append(toolErrs, fmt.Sprintf("replay of seed %d failed: %v", h.r.Seed, err))
			continue
		}
		if hasClass(spec, rr, cl) == nil {
			c2, _ := classOf(spec, rr)
			toolErrs = append(toolErrs, fmt.Sprintf("violation %s of seed %d (profile %s) did not reproduce from its tape (got %q): non-deterministic run", cl, h.r.Seed, h.r.Profile, c2))
			continue
		}
		small := minimise(bi.Binary, spec, h.r.Profile, scratch, h.r.Seed, tape, cl, minBudget)
		fr, err := replayTape(bi.Binary, h.r.Profile, scratch, h.r.Seed, small)
		if err != nil {
			toolErrs = append(toolErrs, fmt.Sprintf("final replay failed: %v", err))
			continue
		}
		v3 := hasClass(spec, fr, cl)
		if v3 == nil {
			// fall back to the unminimised tape
			small, fr = tape, rr
			v3 = hasClass(spec, rr, cl)
		}
		if kf := matchKnown(known, v3); kf != nil {
			fmt.Printf("KNOWN-FINDING: property=%s %s\n", id, kf.What)
			continue
		}
		os.MkdirAll(filepath.Join(root, "replays"), 0o755)
		rp := filepath.Join(root, "replays", fmt.Sprintf("%s-%s-%d.json", id, h.r.Profile, h.r.Seed))
		tr := fr.Trace
		if len(tr) > 400 {
			tr = tr[len(tr)-400:]
		}
		var cfg any
		_ = json.Unmarshal(fr.Config, &cfg)
		rf := replayFile{Property: id, Profile: h.r.Profile, Seed: h.r.Seed, Class: cl, Fingerprint: bi.Report.Fingerprint,
			Config: cfg, Tape: small, Violation: v3, Trace: tr,
			Note: fmt.Sprintf("minimised from %d to %d tape entries; replay with: ./bin/vsim replay %s", len(tape), len(small), rp)}
		if fr.Crash != nil {
			rf.Crash = fr.Crash
		}
		b, _ := json.MarshalIndent(rf, "", " ")
		if err := os.WriteFile(rp, b, 0o644); err != nil {
			toolErrs = append(toolErrs, err.Error())
			continue
		}
		fmt.Printf("violation class %s: seed %d profile %s, tape %d -> %d entries\n  %s\n", cl, h.r.Seed, h.r.Profile, len(tape), len(small), v3.Detail)
		fmt.Printf("VIOLATION property=%s replay=%s\n", id, rp)
		reported = append(reported, map[string]any{"class": cl, "seed": h.r.Seed, "replay": rp, "detail": v3.Detail, "runs": classRuns[cl]})
		rc = 1
	}

	// ---- evidence ----
	ev := buildEvidence(spec, *tier, baseSeed, all, bi, time.Since(start), nviol, reported, toolErrs)
	os.MkdirAll(filepath.Join(root, "evidence"), 0o755)
	eb, _ := json.MarshalIndent(ev, "", " ")
	if err := os.WriteFile(filepath.Join(root, "evidence", id+".json"), eb, 0o644); err != nil {
		toolErrs = append(toolErrs, err.Error())
	}
	fmt.Printf("%s: %d runs, %d distinct non-trivial schedules, %d violating runs, %.1fs\n", id, len(all), ev.Coverage["distinct_nontrivial"], nviol, time.Since(start).Seconds())
	if len(toolErrs) > 0 {
		for _, e := range toolErrs {
			fmt.Fprintln(os.Stderr, "TOOL-ERROR:", e)
		}
		if rc == 0 {
			return 2
		}
	}
	return rc
}

func buildEvidence(spec *propSpec, tier string, seed int64, all []*result, bi *buildInfo, wall time.Duration, nviol int, reported []map[string]any, toolErrs []string) *evidence {
	distinct := map[string]bool{}
	var virt int64
	faults := map[string]int{}
	probes := map[string]int{}
	stats := map[string]int{}
	profRuns := map[string]int{}
	var samples []any
	for _, r := range all {
		virt += r.VirtualMs
		if r.Nontrivial {
			distinct[r.Profile+":"+r.TraceHash] = true
		}
		for k, v := range r.Faults {
			faults[k] += v
		}
		for k, v := range r.Probes {
			probes[k] += v
		}
		for k, v := range r.Stats {
			stats[k] += v
		}
		profRuns[r.Profile]++
		if len(samples) < 3 && r.Nontrivial {
			var cfg any
			_ = json.Unmarshal(r.Config, &cfg)
			samples = append(samples, map[string]any{"seed": r.Seed, "profile": r.Profile, "config": cfg, "stats": r.Stats,
				"faults": r.Faults, "virtual_ms": r.VirtualMs, "trace_hash": r.TraceHash, "violations": len(r.Violations)})
		}
	}
	if len(samples) == 0 {
		samples = append(samples, map[string]any{"note": "no non-trivial run completed"})
	}
	hours := wall.Hours()
	cov := map[string]any{
		"evaluations":         len(all),
		"distinct_nontrivial": len(distinct),
		"rule":                spec.Rule,
		"samples":             samples,
		"runs_per_hour":       int(float64(len(all)) / maxf(hours, 1e-9)),
		"simulated_seconds":   virt / 1000,
		"faults_fired":        faults,
		"probes":              probes,
		"scheduler_stats":     stats,
		"runs_per_profile":    profRuns,
		"components_real":     spec.Real,
		"components_stub":     spec.Stub,
		"instrumentation":     bi.Report,
		"escapes":             stats["Escapes"],
		"reported":            reported,
		"tool_errors":         toolErrs,
		"exhaustive":          false,
	}
	return &evidence{PropertyID: spec.ID, Tier: tier, Seed: seed, Level: spec.Level, Coverage: cov,
		Assumptions: spec.Assume, WallS: wall.Seconds(), Violations: nviol}
}

func maxf(a, b float64) float64 {
	if a > b {
		return a
	}
	return b
}

// ---- replay command ----

func cmdReplay(args []string) int {
	if len(args) < 1 {
		fmt.Fprintln(os.Stderr, "usage: vsim replay <file>")
		return 2
	}
	b, err := os.ReadFile(args[0])
	if err != nil {
		fmt.Fprintln(os.Stderr, err)
		return 2
	}
	var rf replayFile
	if err := json.Unmarshal(b, &rf); err != nil {
		fmt.Fprintln(os.Stderr, err)
		return 2
	}
	spec := specs[rf.Property]
	if spec == nil {
		fmt.Fprintln(os.Stderr, "unknown property in replay file")
		return 2
	}
	bi, err := buildWorlds("replay")
	if err != nil {
		fmt.Fprintln(os.Stderr, "TOOL-ERROR (build):", err)
		return 2
	}
	defer os.Remove(bi.Binary)
	root := verifRoot()
	scratch, _ := os.MkdirTemp(filepath.Join(root, ".work"), "replay-")
	defer os.RemoveAll(scratch)
	r, err := replayTape(bi.Binary, rf.Profile, scratch, rf.Seed, rf.Tape)
	if err != nil {
		fmt.Fprintln(os.Stderr, "TOOL-ERROR:", err)
		return 2
	}
	if len(args) > 1 && args[1] == "-v" {
		for _, l := range r.Trace {
			fmt.Println(l)
		}
	}
	cl, v := classOf(spec, r)
	if hv := hasClass(spec, r, rf.Class); hv != nil {
		cl, v = rf.Class, hv
	}
	if bi.Report.Fingerprint != rf.Fingerprint {
		fmt.Printf("note: instrumented sources differ from the build that produced this file (%s vs %s)\n", bi.Report.Fingerprint, rf.Fingerprint)
	}
	if cl == rf.Class {
		fmt.Printf("reproduced %s at decision %d: %s\n", cl, v.Decision, v.Detail)
		fmt.Printf("VIOLATION property=%s replay=%s\n", rf.Property, args[0])
		return 1
	}
	fmt.Printf("not reproduced: expected class %s, got %q\n", rf.Class, cl)
	return 0
}
