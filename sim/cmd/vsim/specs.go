package main

import "time"

var routeReal = []string{
	"proxy.adminServiceProxyServer.StreamWorkflowReplicationMessages (both servers, parameterised as NewClusterConnection does for routing mode)",
	"proxy.handleStream / streamRouting", "proxy.proxyStreamSender", "proxy.proxyStreamReceiver", "proxy.proxyIDRingBuffer",
	"proxy.shardManagerImpl (memberlist disabled)", "proxy.ReplicationStreamObserver", "temporal common.WorkflowIDToHistoryShard, channel.ShutdownOnce",
}
var routeStub = []string{
	"gRPC stream objects and AdminServiceClient: vsim/simio in-memory streams modelling gRPC's stream contract",
	"Temporal clusters: source/target shard models written from Temporal 1.31.2 stream_sender.go, stream_receiver.go, executable_task_tracker.go",
	"loggers: no-op",
}
var commonAssume = []string{
	"source transformation (vsim/instrument) preserves semantics apart from scheduling; it fails the build on constructs it cannot handle",
	"testing/synctest fake clock and quiescence detection (Go 1.26.4)",
	"one task runs at a time: interleavings are explored at synchronisation operations (lock, channel, select, map range, blocking call), not inside critical sections or between atomics; data races as such are not explored",
	"sampling, not enumeration: a clean batch is evidence, not proof",
}

func init() {
	addSpec(&propSpec{ID: "C01", Profiles: []string{"C01"}, Level: "exploration",
		QuickRuns: 1500, ThoroughRuns: 150000, QuickWall: 75 * time.Second, ThoroughWall: 20 * time.Minute,
		Rule: "one evaluation = one seeded simulated run of the ROUTE world (random shard counts 1..4 x 1..4, direction(s), batch shapes, queue/ring/window knobs, late and non-acking targets; scheduler interleaves every lock/channel/select/map-range of the routing code with message delivery, task completion and acks). distinct = distinct fingerprint of the full decision+event trace; non-trivial = at least one message reached a target stream and at least one ack reached a source stream",
		Real: routeReal, Stub: routeStub, Assume: commonAssume})
	addSpec(&propSpec{ID: "C02", Profiles: []string{"C02", "C01"}, Level: "exploration",
		QuickRuns: 1500, ThoroughRuns: 150000, QuickWall: 75 * time.Second, ThoroughWall: 20 * time.Minute,
		Rule: "one evaluation = one seeded simulated ROUTE run without stream failures; online oracle = Temporal's ExecutableTaskTracker rules on every target stream plus owner/payload checks, end oracle = exactly-once and per-source order. distinct/non-trivial as for C01",
		Real: routeReal, Stub: routeStub, Assume: commonAssume})
	addSpec(&propSpec{ID: "C03", Profiles: []string{"C03"}, Level: "exploration",
		QuickRuns: 1500, ThoroughRuns: 150000, QuickWall: 75 * time.Second, ThoroughWall: 20 * time.Minute,
		Rule: "one evaluation = one seeded simulated ROUTE run (chaos phase, then a fault-free fair tail of at most 120 virtual seconds in which every target completes and acks on a 1 s timer and every source sends its 1 s watermark). distinct/non-trivial as for C01",
		Real: routeReal, Stub: routeStub, Assume: append(append([]string{}, commonAssume...), "liveness is judged only in runs without stream failures, after the workload stopped, under a fair schedule")})
	addSpec(&propSpec{ID: "C04", Profiles: []string{"C04", "C04bias"}, Level: "fault_enumeration",
		QuickRuns: 4000, ThoroughRuns: 150000, QuickWall: 75 * time.Second, ThoroughWall: 20 * time.Minute,
		Rule: "one evaluation = one seeded simulated ROUTE run with 0..3 stream faults (target cancel / transport break / clean close, source EOF / error / break) placed by the scheduler at arbitrary decisions (in half of the runs anywhere from the start, in the other half at fault times drawn uniformly over the run so that they land on accumulated in-flight state; profile C04bias additionally prefers streams that hold unconfirmed tasks), followed by reconnection in any order. Each acknowledged-but-unconfirmed task is reported once. non-trivial = messages and acks flowed and at least one fault fired",
		Real: routeReal, Stub: routeStub, Assume: commonAssume})
	addSpec(&propSpec{ID: "C05", Profiles: []string{"C05sys", "C05ring"}, Level: "exploration",
		QuickRuns: 6000, ThoroughRuns: 400000, QuickWall: 75 * time.Second, ThoroughWall: 20 * time.Minute,
		Rule: "two halves. C05sys: one evaluation = one seeded simulated ROUTE run (no stream failures, ring capacity knob 1..8 or 1024) in which every translation the ack loop makes (observed at ShardManager.DeliverAckToShardOwner through a recording decorator) is compared with the harness's own map of proxy id -> (source, original id) for that stream, while the scheduler interleaves the send loop's Append between the ack loop's AggregateUpTo and Discard. C05ring: one evaluation = one seeded append/aggregate/discard history (capacities <1..16, 1-3 source shards, contiguous and gapped proxy ids, watermarks below/inside/above the stored range) against a slice reference model; this half is model-based op-sequence testing of a sequential component, not simulation. distinct = distinct trace fingerprint; non-trivial = messages and acks flowed (sys) / at least 3 operations (ring)",
		Real: append(append([]string{}, routeReal...), "proxy.proxyIDRingBuffer driven directly (C05ring, through an in-package accessor added by the build overlay)"), Stub: routeStub, Assume: commonAssume})
	passReal := []string{"proxy.adminServiceProxyServer.StreamWorkflowReplicationMessages (default and LCM modes)", "proxy.handleStream", "proxy.StreamForwarder (Run, forwardReplicationMessages, forwardAcks, startListener)", "proxy.mapShardIDUnique", "proxy.ReplicationStreamObserver incl. its periodic printer"}
	passStub := []string{"gRPC stream objects and AdminServiceClient: vsim/simio", "initiating and serving Temporal clusters: harness endpoints that send numbered messages and end/fail the stream on command", "loggers: no-op"}
	addSpec(&propSpec{ID: "C06", Profiles: []string{"C06", "C06clean"}, Level: "fault_enumeration",
		QuickRuns: 4000, ThoroughRuns: 400000, QuickWall: 75 * time.Second, ThoroughWall: 20 * time.Minute,
		Rule: "one evaluation = one seeded simulated PASS run: 1-3 concurrent pass-through streams (default or LCM mode), up to 9 messages each way, stream windows 1..8; in profile C06 the scheduler places terminal events (initiator half-close / cancel / transport break / send failure / unknown message kind; serving side EOF / error / break / send failure / unknown kind; failed open; stalled CloseSend) at arbitrary decisions; profile C06clean has none and checks completeness. distinct = distinct trace fingerprint; non-trivial = messages were relayed and (C06) a terminal event fired",
		Real: passReal, Stub: passStub, Assume: commonAssume})
	addSpec(&propSpec{ID: "C20", Profiles: []string{"C20", "C20route"}, Level: "exploration",
		QuickRuns: 8000, ThoroughRuns: 400000, QuickWall: 75 * time.Second, ThoroughWall: 20 * time.Minute,
		Rule: "one evaluation = one seeded simulated PASS run in which 1-4 streams are opened with hostile cluster/shard metadata (boundary list incl. 0, -1, 1023..1025, 2^20 +-1, the int32 overflow threshold 238609294, 2^31-1, -2^31, values >= 2^32, non-numeric, missing, plus random huge and negative values; the range between 2^21 and the overflow threshold is excluded because it only costs memory; plus large representable shard ids 1024..1048575, which in one run out of three is the theme of every hostile stream so that the per-shard bookkeeping grows to different sizes concurrently), concurrently, followed by 1-2 well-formed streams; the active-stream counters are read through the observer's own printer by a probe task at the quiescent end of the drain and after every handler returned (no counter for an id no running handler carries, served well-formed streams counted, nothing counted at the end, the read itself finishes); default and LCM modes; the stream observer's printer runs. Profile C20route: the ROUTE world (routing mode, both servers) with 2-5 hostile opens - optionally carrying the intra-proxy header - injected among the regular streams; the regular streams must still complete the fault-free liveness tail, nothing may crash, and everything must be cleaned up at the end. distinct = distinct trace fingerprint; non-trivial = all hostile opens were issued and at least one message was relayed",
		Real: passReal, Stub: passStub, Assume: commonAssume})
	addSpec(&propSpec{ID: "C09", Profiles: []string{"C09"}, Level: "exploration",
		QuickRuns: 3000, ThoroughRuns: 300000, QuickWall: 75 * time.Second, ThoroughWall: 20 * time.Minute,
		Rule:   "one evaluation = one seeded simulated GOSSIP run: 2-3 proxy instances, 1-2 shards per cluster; the scheduler orders instance start/join, shard claims and releases (>= 1 ms of virtual time apart per shard), delivery of every reliable announcement, join/leave/update event and push/pull state merge (any order, any delay, optional duplication, optional instance leave); closing phase delivers everything outstanding, merges all pairs twice, lets the reconcile timers fire, then checks ownership tables and issues delivery probes from every instance for every shard. distinct = distinct trace fingerprint; non-trivial = at least one claim and one probe",
		Real:   []string{"proxy.shardManagerImpl incl. shardDelegate.NotifyMsg/MergeRemoteState/LocalState/NodeMeta and shardEventDelegate.NotifyLeave", "proxy.intraProxyManager (reconcile loop, sendAck, sendReplicationMessages)", "proxy.intraProxyStreamSender/Receiver", "routing-mode stream handler serving intra-proxy streams (streamIntraProxyRouting)"},
		Stub:   []string{"hashicorp/memberlist: vsim/fakeml (same API subset; delivery of user messages, state merges and membership events are simulator steps; no failure detector)", "intra-proxy gRPC link: vsim/simio streams terminating in the peer instance's real handler (seam in intra_proxy_router.go)", "local cluster streams: harness registers delivery/ack channels and ownership through the ShardManager interface as proxyStreamSender/Receiver do"},
		Assume: commonAssume})
	muxReal := []string{"transport/mux: NewGRPCMuxManager, NewMuxEstablisherProvider / NewMuxReceiverProvider (through the net seam), muxProvider, multiMuxManager, registerGRPCServer, yamux observer", "transport/mux/session.ManagedMuxSession", "transport/grpcutil.MultiClientConn and MakeDialOptions", "hashicorp/yamux", "google.golang.org/grpc client and servers", "temporal backoff.ThrottleRetry, x/sync/semaphore"}
	muxStub := []string{"network: vsim/simnet in-memory connections with refuse / reset / close / partition switches", "peer: harness endpoint speaking real yamux, serving a tagged echo AdminService on every session"}
	muxAssume := append(append([]string{}, commonAssume...), "yamux and gRPC run goroutines of their own that the simulator does not schedule (it owns the proxy's goroutines, the clock and the network); verdicts are taken at quiescent points on state that does not depend on their internal order")
	addSpec(&propSpec{ID: "C10", Profiles: []string{"C10"}, Level: "fault_enumeration", Chunk: 1,
		QuickRuns: 3000, ThoroughRuns: 60000, QuickWall: 80 * time.Second, ThoroughWall: 25 * time.Minute,
		Rule: "one evaluation = one seeded simulated MUX run: establisher or receiver role, pool size 1..4, 0..5 faults (dial refused, connection closed before/after yamux setup, black-holed connection, reset, partition, remote and local session close) and optionally lifetime cancellation at an arbitrary decision; then faults stop, the pool must refill within 3 virtual minutes, then shutdown. distinct = distinct trace fingerprint; non-trivial = a session was established and a fault (or the shutdown) fired",
		Real: muxReal, Stub: muxStub, Assume: muxAssume})
	addSpec(&propSpec{ID: "C11", Profiles: []string{"C11", "C11race"}, Level: "exploration", Chunk: 1,
		QuickRuns: 3000, ThoroughRuns: 40000, QuickWall: 80 * time.Second, ThoroughWall: 25 * time.Minute,
		Rule: "one evaluation = one seeded simulated MUX run with RPCs through the MultiClientConn: in-flight RPCs during session churn (must end by their deadline), then at quiescent points: 4*N calls over the full pool (all succeed on registered sessions, spread over >= 2), sessions killed one by one (calls fail over to survivors, CanMakeCalls tracks the set, unavailability with none left), a new session appears (calls resume). Profile C11race: establisher role, the peer stops accepting once a session is up and session kills are aimed at sessions that have just come up (a removal racing the announcement of the addition); after the churn, with nothing new established, the endpoints the client connection may dial must equal the registered sessions. distinct = distinct trace fingerprint; non-trivial = sessions were established and at least one RPC succeeded",
		Real: muxReal, Stub: muxStub, Assume: muxAssume})
	addSpec(&propSpec{ID: "C19", Profiles: []string{"C19"}, Level: "fault_enumeration",
		QuickRuns: 6000, ThoroughRuns: 100000, QuickWall: 80 * time.Second, ThoroughWall: 20 * time.Minute,
		Rule:   "one evaluation = one seeded run of 3-6 TLS handshakes between the proxy's TLS configuration (server role: encryption.GetServerTLSConfig as wrapped by the mux receiver and the TCP server; client role: GetClientTLSConfig as wrapped by the mux establisher and the TCP client) and a harness peer whose credential is drawn from {valid chain, short-lived valid, self-signed, foreign CA, expired, not yet valid, wrong extended key usage, wrong name, none}, with verification on/off, with/without own certificate, trust anchored in a configured CA file or (client role, RemoteCAPath empty) in the host's root store - which the harness replaces per worker process by one CA of its own through SSL_CERT_FILE -, an optional 2 h jump of the simulated clock between issuance and handshake, and an optional connection cut or byte flip at a random offset; 'admitted' = handshake completed on both sides and one application byte crossed each way; reference = independent x509 verification against the configured CA at the simulated time. distinct = distinct trace fingerprint (the sequence of cases and outcomes)",
		Real:   []string{"encryption.GetServerTLSConfig / GetClientTLSConfig / fetchCACert / validateHasCA", "crypto/tls, crypto/x509 (standard library)"},
		Stub:   []string{"network: vsim/simnet connection with cut / byte-flip switches", "peer: harness TLS endpoint with per-run generated credentials that presents its certificate regardless of the CA hint"},
		Assume: append(append([]string{}, commonAssume...), "the mux receiver/establisher wrappers are tls.Server(conn, cfg) / tls.Client(conn, cfg) and the TCP server/client use credentials.NewTLS(cfg) with the same cfg: the handshake is performed directly on those configs", "crypto/rand is not owned by the simulator; outcomes do not depend on it")})
	addSpec(&propSpec{ID: "C07", Profiles: []string{"C07"}, Level: "exploration", Chunk: 1,
		QuickRuns: 600, ThoroughRuns: 40000, QuickWall: 80 * time.Second, ThoroughWall: 25 * time.Minute,
		Rule:   "one evaluation = one seeded WHOLE run: a (local, remote) shard-count pair drawn from 1..64 x 1..64 or from a boundary list (powers of two up to 16384, primes, mixed composites such as 9973, 12345, 16383), the real ClusterConnection assembled and started in LCM mode on the simulated network, then 3-8 probes: DescribeCluster through the outbound or inbound server, or a replication stream opened for LCM shard 1, LCM, or a random one, whose forwarded metadata is recorded by the serving fake cluster. Configuration swarm: the pair x shard space is sampled, not enumerated; distinct = distinct trace fingerprint (pair + probes)",
		Real:   []string{"proxy.NewClusterConnection, ClusterConnection.Start (clients, TCP servers, interceptor chain, LCM parameters per direction)", "adminServiceProxyServer.DescribeCluster and StreamWorkflowReplicationMessages (LCM branch, mapShardIDUnique), StreamForwarder", "common.GCD/LCM, temporal MapShardID and WorkflowIDToHistoryShard", "google.golang.org/grpc clients and servers"},
		Stub:   []string{"network: vsim/simnet (seams at net.Listen and grpc.NewClient in cluster_connection.go)", "both Temporal clusters: real gRPC servers with a recording fake AdminService"},
		Assume: append(append([]string{}, commonAssume...), "gRPC runs goroutines of its own that the simulator does not schedule; verdicts are taken from quiescent observables (what the fake cluster recorded, what the caller got back)")})
	addSpec(&propSpec{ID: "C08", Profiles: []string{"C08", "C04"}, Level: "exploration",
		QuickRuns: 4000, ThoroughRuns: 150000, QuickWall: 75 * time.Second, ThoroughWall: 20 * time.Minute,
		Rule: "one evaluation = one seeded simulated ROUTE run with stream churn (successor incarnations opening while predecessors tear down); oracles: no unrecovered panic, functional probes on the newest incarnation, empty registries and no live task after all streams ended",
		Real: routeReal, Stub: routeStub, Assume: commonAssume})
}
