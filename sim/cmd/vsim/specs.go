package main

import "time"

var routeReal = []string{
	"proxy.adminServiceProxyServer.StreamWorkflowReplicationMessages (both servers, parameterised as NewClusterConnection does for routing mode)",
	"proxy.handleStream / streamRouting", "proxy.proxyStreamSender", "proxy.proxyStreamReceiver", "proxy.proxyIDRingBuffer",
	"proxy.shardManagerImpl (memberlist disabled)", "proxy.ReplicationStreamObserver", "temporal common.WorkflowIDToHistoryShard, channel.ShutdownOnce",
}
var routeStub = []string{
	"gRPC stream objects and AdminServiceClient: vsim/simio in-memory streams modelling gRPC's stream contract",
	"Temporal clusters: source/target shard models written from Temporal 1.31.2 stream_sender.go, stream_receiver.go, executable_task_tracker.go",
	"loggers: no-op",
}
var commonAssume = []string{
	"source transformation (vsim/instrument) preserves semantics apart from scheduling; it fails the build on constructs it cannot handle",
	"testing/synctest fake clock and quiescence detection (Go 1.26.4)",
	"one task runs at a time: interleavings are explored at synchronisation operations (lock, channel, select, map range, blocking call), not inside critical sections or between atomics; data races as such are not explored",
	"sampling, not enumeration: a clean batch is evidence, not proof",
}

func init() {
	addSpec(&propSpec{ID: "C01", Profiles: []string{"C01"}, Level: "exploration",
		QuickRuns: 1500, ThoroughRuns: 150000, QuickWall: 75 * time.Second, ThoroughWall: 20 * time.Minute,
		Rule: "one evaluation = one seeded simulated run of the ROUTE world (random shard counts 1..4 x 1..4, direction(s), batch shapes, queue/ring/window knobs, late and non-acking targets; scheduler interleaves every lock/channel/select/map-range of the routing code with message delivery, task completion and acks). distinct = distinct fingerprint of the full decision+event trace; non-trivial = at least one message reached a target stream and at least one ack reached a source stream",
		Real: routeReal, Stub: routeStub, Assume: commonAssume})
	addSpec(&propSpec{ID: "C02", Profiles: []string{"C02", "C01"}, Level: "exploration",
		QuickRuns: 1500, ThoroughRuns: 150000, QuickWall: 75 * time.Second, ThoroughWall: 20 * time.Minute,
		Rule: "one evaluation = one seeded simulated ROUTE run without stream failures; online oracle = Temporal's ExecutableTaskTracker rules on every target stream plus owner/payload checks, end oracle = exactly-once and per-source order. distinct/non-trivial as for C01",
		Real: routeReal, Stub: routeStub, Assume: commonAssume})
	addSpec(&propSpec{ID: "C03", Profiles: []string{"C03"}, Level: "exploration",
		QuickRuns: 1500, ThoroughRuns: 150000, QuickWall: 75 * time.Second, ThoroughWall: 20 * time.Minute,
		Rule: "one evaluation = one seeded simulated ROUTE run (chaos phase, then a fault-free fair tail of at most 120 virtual seconds in which every target completes and acks on a 1 s timer and every source sends its 1 s watermark). distinct/non-trivial as for C01",
		Real: routeReal, Stub: routeStub, Assume: append(append([]string{}, commonAssume...), "liveness is judged only in runs without stream failures, after the workload stopped, under a fair schedule")})
	addSpec(&propSpec{ID: "C04", Profiles: []string{"C04"}, Level: "fault_enumeration",
		QuickRuns: 1500, ThoroughRuns: 150000, QuickWall: 75 * time.Second, ThoroughWall: 20 * time.Minute,
		Rule: "one evaluation = one seeded simulated ROUTE run with 0..3 stream faults (target cancel / transport break / clean close, source EOF / error / break) placed by the scheduler at arbitrary decisions, followed by reconnection in any order. non-trivial = messages and acks flowed and at least one fault fired",
		Real: routeReal, Stub: routeStub, Assume: commonAssume})
	addSpec(&propSpec{ID: "C05", Profiles: []string{"C05sys", "C05ring"}, Level: "exploration",
		QuickRuns: 6000, ThoroughRuns: 400000, QuickWall: 75 * time.Second, ThoroughWall: 20 * time.Minute,
		Rule: "two halves. C05sys: one evaluation = one seeded simulated ROUTE run (no stream failures, ring capacity knob 1..8 or 1024) in which every translation the ack loop makes (observed at ShardManager.DeliverAckToShardOwner through a recording decorator) is compared with the harness's own map of proxy id -> (source, original id) for that stream, while the scheduler interleaves the send loop's Append between the ack loop's AggregateUpTo and Discard. C05ring: one evaluation = one seeded append/aggregate/discard history (capacities <1..16, 1-3 source shards, contiguous and gapped proxy ids, watermarks below/inside/above the stored range) against a slice reference model; this half is model-based op-sequence testing of a sequential component, not simulation. distinct = distinct trace fingerprint; non-trivial = messages and acks flowed (sys) / at least 3 operations (ring)",
		Real: append(append([]string{}, routeReal...), "proxy.proxyIDRingBuffer driven directly (C05ring, through an in-package accessor added by the build overlay)"), Stub: routeStub, Assume: commonAssume})
	addSpec(&propSpec{ID: "C08", Profiles: []string{"C08", "C04"}, Level: "exploration",
		QuickRuns: 1500, ThoroughRuns: 150000, QuickWall: 75 * time.Second, ThoroughWall: 20 * time.Minute,
		Rule: "one evaluation = one seeded simulated ROUTE run with stream churn (successor incarnations opening while predecessors tear down); oracles: no unrecovered panic, functional probes on the newest incarnation, empty registries and no live task after all streams ended",
		Real: routeReal, Stub: routeStub, Assume: commonAssume})
}
