// Command vsim is the orchestrator: it instruments /repo's current tree, builds the
// worlds test binary, runs seeded simulations in worker processes, minimises and
// replays violations, and writes evidence.
package main

import (
	"fmt"
	"os"
)

func main() {
	if len(os.Args) < 2 {
		fmt.Fprintln(os.Stderr, "usage: vsim build|check|replay|selftest ...")
		os.Exit(2)
	}
	var rc int
	switch os.Args[1] {
	case "build":
		rc = cmdBuild(os.Args[2:])
	case "check":
		rc = cmdCheck(os.Args[2:])
	case "replay":
		rc = cmdReplay(os.Args[2:])
	case "selftest":
		rc = cmdSelftest(os.Args[2:])
	default:
		fmt.Fprintln(os.Stderr, "unknown command", os.Args[1])
		rc = 2
	}
	os.Exit(rc)
}
