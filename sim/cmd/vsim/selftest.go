package main

import (
	"flag"
	"fmt"
	"os"
	"sort"
	"strings"
	"sync"
	"time"
)

// exactProfiles must replay bit-identically (full decision + event trace); the others run
// library goroutines the simulator does not schedule and are compared on verdicts only.
var exactProfiles = []string{"C01", "C02", "C03", "C04", "C04bias", "C04multi", "C04crash", "C04restart", "C05sys", "C05ring", "C06", "C06clean", "C08", "C08multi", "ROUTEmulti", "C09", "C20", "C20route"}
var verdictProfiles = []string{"C07", "C10", "C11", "C11race", "C19"}

// cmdSelftest: determinism meta-check. Every seed is executed in several fresh processes at
// GOMAXPROCS 1, 4 and 16; exact profiles must produce identical trace hashes, all profiles
// identical verdicts, and exact profiles must report zero scheduler escapes.
func cmdSelftest(args []string) int {
	fs := flag.NewFlagSet("selftest", flag.ContinueOnError)
	seeds := fs.Int("seeds", 40, "seeds per profile")
	reps := fs.Int("reps", 2, "processes per GOMAXPROCS value")
	only := fs.String("profiles", "", "comma-separated profile subset")
	if err := fs.Parse(args); err != nil {
		return 2
	}
	bi, err := buildWorlds("selftest")
	if err != nil {
		fmt.Fprintln(os.Stderr, "TOOL-ERROR (build):", err)
		return 2
	}
	defer os.Remove(bi.Binary)
	profs := append(append([]string{}, exactProfiles...), verdictProfiles...)
	if *only != "" {
		profs = strings.Split(*only, ",")
	}
	exact := map[string]bool{}
	for _, p := range exactProfiles {
		exact[p] = true
	}
	type key struct {
		prof string
		seed uint64
	}
	type obs struct {
		hash    string
		verdict string
		escapes int
		where   string
	}
	var mu sync.Mutex
	all := map[key][]obs{}
	var toolErr []string
	sem := make(chan struct{}, 8)
	var wg sync.WaitGroup
	start := time.Now()
	for _, prof := range profs {
		chunk := *seeds
		if !exact[prof] {
			chunk = 1
		}
		for _, gmp := range []string{"1", "4", "16"} {
			for r := 0; r < *reps; r++ {
				for off := 0; off < *seeds; off += chunk {
					wg.Add(1)
					sem <- struct{}{}
					go func(prof, gmp string, r, off, chunk int) {
						defer wg.Done()
						defer func() { <-sem }()
						out := runWorker(bi.Binary, []string{"VSIM_PROFILE=" + prof, fmt.Sprintf("VSIM_SEEDS=%d:%d", 424242+off, chunk), "GOMAXPROCS=" + gmp}, 5*time.Minute)
						mu.Lock()
						defer mu.Unlock()
						if out.err != nil {
							toolErr = append(toolErr, fmt.Sprintf("%s GOMAXPROCS=%s: %v %s", prof, gmp, out.err, out.stderr))
						}
						for _, res := range out.results {
							var vs []string
							for _, v := range res.Violations {
								vs = append(vs, v.Property+"/"+v.Clause+"/"+v.Sig)
							}
							sort.Strings(vs)
							k := key{prof, res.Seed}
							all[k] = append(all[k], obs{res.TraceHash, strings.Join(vs, ","), res.Stats["Escapes"], fmt.Sprintf("GOMAXPROCS=%s#%d", gmp, r)})
						}
					}(prof, gmp, r, off, chunk)
				}
			}
		}
	}
	wg.Wait()
	bad := 0
	perProf := map[string][3]int{} // seeds, hash mismatches, verdict mismatches
	var keys []key
	for k := range all {
		keys = append(keys, k)
	}
	sort.Slice(keys, func(i, j int) bool {
		if keys[i].prof != keys[j].prof {
			return keys[i].prof < keys[j].prof
		}
		return keys[i].seed < keys[j].seed
	})
	for _, k := range keys {
		os_ := all[k]
		st := perProf[k.prof]
		st[0]++
		hashDiff, verdictDiff, esc := false, false, 0
		for _, o := range os_[1:] {
			if o.hash != os_[0].hash {
				hashDiff = true
			}
			if o.verdict != os_[0].verdict {
				verdictDiff = true
			}
		}
		for _, o := range os_ {
			esc += o.escapes
		}
		if hashDiff {
			st[1]++
		}
		if verdictDiff {
			st[2]++
		}
		perProf[k.prof] = st
		if len(os_) != 3**reps {
			bad++
			fmt.Printf("INCOMPLETE %s seed %d: %d of %d executions\n", k.prof, k.seed, len(os_), 3**reps)
		}
		if verdictDiff || (exact[k.prof] && (hashDiff || esc > 0)) {
			bad++
			fmt.Printf("NONDETERMINISTIC %s seed %d: hashDiff=%v verdictDiff=%v escapes=%d %v\n", k.prof, k.seed, hashDiff, verdictDiff, esc, os_)
		}
	}
	var names []string
	for p := range perProf {
		names = append(names, p)
	}
	sort.Strings(names)
	for _, p := range names {
		st := perProf[p]
		mode := "verdict-only"
		if exact[p] {
			mode = "exact"
		}
		fmt.Printf("%-9s %-12s seeds=%d executions/seed=%d trace-hash mismatches=%d verdict mismatches=%d\n", p, mode, st[0], 3**reps, st[1], st[2])
	}
	for _, e := range toolErr {
		fmt.Fprintln(os.Stderr, "TOOL-ERROR:", e)
	}
	fmt.Printf("determinism selftest: %d problems, %.0fs\n", bad+len(toolErr), time.Since(start).Seconds())
	if bad+len(toolErr) > 0 {
		return 1
	}
	return 0
}
