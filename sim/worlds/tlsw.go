package worlds

import (
	"crypto/ecdsa"
	"crypto/elliptic"
	"crypto/rand"
	"crypto/tls"
	"crypto/x509"
	"crypto/x509/pkix"
	"encoding/pem"
	"fmt"
	"math/big"
	"os"
	"path/filepath"
	"sync"
	"time"

	"go.temporal.io/server/common/log"

	"github.com/temporalio/s2s-proxy/encryption"

	"vsim/simnet"
	"vsim/simrt"
)

// ---------------------------------------------------------------------------
// TLS world (C19): handshakes at the proxy's TLS endpoints. Real: encryption.
// GetServerTLSConfig / GetClientTLSConfig (the configs the mux receiver / establisher
// wrap their connections with - tls.Server(conn, cfg) / tls.Client(conn, cfg) - and the
// TCP server/client credentials are built from), crypto/tls, crypto/x509. Stub: the
// network (vsim/simnet) and the peer, a harness endpoint with generated credentials.
// The simulator contributes the clock (certificate validity is judged at the bubble's
// time, so "expired" can be a clock jump) and connection faults during the handshake.
// ---------------------------------------------------------------------------

type tlsCA struct {
	cert *x509.Certificate
	key  *ecdsa.PrivateKey
	pem  []byte
}

type tlsCred struct {
	kind   string
	cert   *tls.Certificate
	leaf   *x509.Certificate
	issuer *tlsCA
}

// The process-wide "system" trust store. Go loads the system roots once per process (from
// SSL_CERT_FILE / SSL_CERT_DIR on Linux), so the harness installs one long-lived CA of its own
// there before anything verifies against nil roots; a proxy TLS client configured without a
// CA file (RemoteCAPath empty) trusts exactly this CA.
var (
	sysCAOnce sync.Once
	sysCA     *tlsCA
	sysCAErr  error
)

func systemCA() (*tlsCA, error) {
	sysCAOnce.Do(func() {
		epoch := time.Date(2000, 1, 1, 0, 0, 0, 0, time.UTC) // the bubble clock starts here
		sysCA, sysCAErr = newCAValid("harness-system-root", epoch.Add(-24*time.Hour), epoch.Add(50*365*24*time.Hour))
		if sysCAErr != nil {
			return
		}
		dir, err := os.MkdirTemp("", "vsim-sysca-")
		if err != nil {
			sysCAErr = err
			return
		}
		defer os.RemoveAll(dir)
		f := filepath.Join(dir, "roots.pem")
		if sysCAErr = os.WriteFile(f, sysCA.pem, 0o600); sysCAErr != nil {
			return
		}
		_ = os.Mkdir(filepath.Join(dir, "empty"), 0o700)
		os.Setenv("SSL_CERT_FILE", f)
		os.Setenv("SSL_CERT_DIR", filepath.Join(dir, "empty"))
		pool, err := x509.SystemCertPool() // forces the one-time load while the file exists
		if err != nil {
			sysCAErr = err
			return
		}
		if !pool.Equal(func() *x509.CertPool { p := x509.NewCertPool(); p.AddCert(sysCA.cert); return p }()) {
			sysCAErr = fmt.Errorf("system certificate pool was loaded before the harness could install its own root")
		}
	})
	return sysCA, sysCAErr
}

func newCA(cn string, now time.Time) (*tlsCA, error) {
	return newCAValid(cn, now.Add(-time.Hour), now.Add(365*24*time.Hour))
}

func newCAValid(cn string, nb, na time.Time) (*tlsCA, error) {
	key, err := ecdsa.GenerateKey(elliptic.P256(), rand.Reader)
	if err != nil {
		return nil, err
	}
	tmpl := &x509.Certificate{
		SerialNumber: big.NewInt(time.Now().UnixNano()), Subject: pkix.Name{CommonName: cn},
		NotBefore: nb, NotAfter: na,
		IsCA: true, BasicConstraintsValid: true, KeyUsage: x509.KeyUsageCertSign | x509.KeyUsageDigitalSignature,
	}
	der, err := x509.CreateCertificate(rand.Reader, tmpl, tmpl, &key.PublicKey, key)
	if err != nil {
		return nil, err
	}
	c, _ := x509.ParseCertificate(der)
	return &tlsCA{cert: c, key: key, pem: pem.EncodeToMemory(&pem.Block{Type: "CERTIFICATE", Bytes: der})}, nil
}

func issue(ca *tlsCA, cn string, dns []string, nb, na time.Time, eku []x509.ExtKeyUsage) (*tls.Certificate, *x509.Certificate, []byte, []byte, error) {
	key, err := ecdsa.GenerateKey(elliptic.P256(), rand.Reader)
	if err != nil {
		return nil, nil, nil, nil, err
	}
	tmpl := &x509.Certificate{
		SerialNumber: big.NewInt(time.Now().UnixNano() + 7), Subject: pkix.Name{CommonName: cn}, DNSNames: dns,
		NotBefore: nb, NotAfter: na, KeyUsage: x509.KeyUsageDigitalSignature, ExtKeyUsage: eku,
	}
	parent, pkey := tmpl, key
	if ca != nil {
		parent, pkey = ca.cert, ca.key
	}
	der, err := x509.CreateCertificate(rand.Reader, tmpl, parent, &key.PublicKey, pkey)
	if err != nil {
		return nil, nil, nil, nil, err
	}
	leaf, _ := x509.ParseCertificate(der)
	kb, _ := x509.MarshalECPrivateKey(key)
	certPEM := pem.EncodeToMemory(&pem.Block{Type: "CERTIFICATE", Bytes: der})
	keyPEM := pem.EncodeToMemory(&pem.Block{Type: "EC PRIVATE KEY", Bytes: kb})
	tc := &tls.Certificate{Certificate: [][]byte{der}, PrivateKey: key, Leaf: leaf}
	return tc, leaf, certPEM, keyPEM, nil
}

type tlsCase struct {
	Role       string `json:"role"`   // "server": the proxy is the TLS server; "client": the proxy is the TLS client
	Verify     bool   `json:"verify"` // CA verification configured (SkipCAVerification=false)
	Trust      string `json:"trust"`  // "file": RemoteCAPath names the CA; "system": RemoteCAPath empty, the host's roots are the trust anchor (client role)
	OwnCert    bool   `json:"own_cert"`
	PeerKind   string `json:"peer_kind"`
	ClockJump  string `json:"clock_jump"`
	ConnFault  string `json:"conn_fault"`
	Admitted   bool   `json:"admitted"`
	Expected   string `json:"expected"` // "admit", "reject", "either"
	ProxyErr   string `json:"proxy_err,omitempty"`
	PeerErr    string `json:"peer_err,omitempty"`
	VerifyNote string `json:"verify_note,omitempty"`
}

const tlsServerName = "proxy.internal.example"

// RunTLS performs a handful of handshakes per run.
func RunTLS(s *simrt.Sim) *Result {
	res := &Result{World: "TLS", Profile: "C19"}
	var viol []Violation
	violate := func(clause, format string, args ...any) {
		viol = append(viol, Violation{Property: "C19", Clause: clause, Detail: fmt.Sprintf(format, args...), VTimeMs: s.Now().Milliseconds()})
	}
	dir, err := os.MkdirTemp("", "vsim-tls-")
	if err != nil {
		res.ToolError = err.Error()
		return res
	}
	defer os.RemoveAll(dir)
	net := simnet.New()
	now := time.Now()
	ca, err := newCA("configured-ca", now)
	if err != nil {
		res.ToolError = err.Error()
		return res
	}
	otherCA, _ := newCA("foreign-ca", now)
	fileCA := ca
	sysRoot, err := systemCA()
	if err != nil {
		res.ToolError = "system trust store: " + err.Error()
		return res
	}
	caPath := filepath.Join(dir, "ca.pem")
	_ = os.WriteFile(caPath, ca.pem, 0o600)
	// the proxy's own credentials (issued by the configured CA, valid for both usages)
	_, _, ownCertPEM, ownKeyPEM, err := issue(ca, "proxy", []string{tlsServerName}, now.Add(-time.Hour), now.Add(30*24*time.Hour),
		[]x509.ExtKeyUsage{x509.ExtKeyUsageServerAuth, x509.ExtKeyUsageClientAuth})
	if err != nil {
		res.ToolError = err.Error()
		return res
	}
	ownCert, ownKey := filepath.Join(dir, "own.pem"), filepath.Join(dir, "own.key")
	_ = os.WriteFile(ownCert, ownCertPEM, 0o600)
	_ = os.WriteFile(ownKey, ownKeyPEM, 0o600)

	nCases := 3 + s.Draw(4)
	var cases []tlsCase
	faults := map[string]int{}
	for i := 0; i < nCases; i++ {
		c := tlsCase{}
		c.Role = []string{"server", "client"}[s.Draw(2)]
		c.Verify = s.Draw(5) != 4
		c.OwnCert = c.Role == "server" || s.Draw(2) == 0
		c.Trust = "file"
		ca := fileCA
		if c.Role == "client" && s.Draw(3) == 2 {
			// trust anchored in the host's root store; a certificate of the CA that the other
			// cases configure by file is then just another foreign CA
			c.Trust = "system"
			ca = sysRoot
		}
		kinds := []string{"valid", "self-signed", "other-ca", "expired", "not-yet-valid", "wrong-usage", "none", "valid-short-lived"}
		if c.Role == "client" {
			kinds = []string{"valid", "self-signed", "other-ca", "expired", "not-yet-valid", "wrong-usage", "wrong-name", "valid-short-lived"}
		}
		c.PeerKind = kinds[s.Draw(len(kinds))]
		c.ClockJump = []string{"none", "none", "2h"}[s.Draw(3)]
		c.ConnFault = []string{"none", "none", "none", "cut", "flip"}[s.Draw(5)]
		issueAt := time.Now()
		// peer credential
		usage := []x509.ExtKeyUsage{x509.ExtKeyUsageClientAuth}
		if c.Role == "client" {
			usage = []x509.ExtKeyUsage{x509.ExtKeyUsageServerAuth}
		}
		var peerCert *tls.Certificate
		var leaf *x509.Certificate
		names := []string{tlsServerName}
		switch c.PeerKind {
		case "valid":
			peerCert, leaf, _, _, err = issue(ca, "peer", names, issueAt.Add(-time.Hour), issueAt.Add(24*time.Hour), usage)
		case "valid-short-lived":
			peerCert, leaf, _, _, err = issue(ca, "peer", names, issueAt.Add(-time.Hour), issueAt.Add(time.Hour), usage)
		case "self-signed":
			peerCert, leaf, _, _, err = issue(nil, "peer", names, issueAt.Add(-time.Hour), issueAt.Add(24*time.Hour), usage)
		case "other-ca":
			peerCert, leaf, _, _, err = issue(otherCA, "peer", names, issueAt.Add(-time.Hour), issueAt.Add(24*time.Hour), usage)
		case "expired":
			peerCert, leaf, _, _, err = issue(ca, "peer", names, issueAt.Add(-48*time.Hour), issueAt.Add(-time.Hour), usage)
		case "not-yet-valid":
			peerCert, leaf, _, _, err = issue(ca, "peer", names, issueAt.Add(24*time.Hour), issueAt.Add(48*time.Hour), usage)
		case "wrong-usage":
			wrong := []x509.ExtKeyUsage{x509.ExtKeyUsageServerAuth}
			if c.Role == "client" {
				wrong = []x509.ExtKeyUsage{x509.ExtKeyUsageClientAuth}
			}
			peerCert, leaf, _, _, err = issue(ca, "peer", names, issueAt.Add(-time.Hour), issueAt.Add(24*time.Hour), wrong)
		case "wrong-name":
			peerCert, leaf, _, _, err = issue(ca, "peer", []string{"someone-else.example"}, issueAt.Add(-time.Hour), issueAt.Add(24*time.Hour), usage)
		case "none":
		}
		if err != nil {
			res.ToolError = err.Error()
			return res
		}
		if c.ClockJump == "2h" {
			time.Sleep(2 * time.Hour) // virtual: the clock moves between issuance and handshake
			faults["clock-jump"]++
		}
		// proxy-side configuration
		pc := encryption.TLSConfig{RemoteCAPath: caPath, SkipCAVerification: !c.Verify}
		if c.Trust == "system" {
			pc.RemoteCAPath = ""
		}
		if c.OwnCert {
			pc.CertificatePath, pc.KeyPath = ownCert, ownKey
		}
		if c.Role == "client" {
			pc.CAServerName = tlsServerName
		}
		var proxyCfg *tls.Config
		if c.Role == "server" {
			proxyCfg, err = encryption.GetServerTLSConfig(pc, log.NewNoopLogger())
		} else {
			proxyCfg, err = encryption.GetClientTLSConfig(pc)
		}
		if err != nil || proxyCfg == nil {
			res.ToolError = fmt.Sprintf("proxy TLS config: %v", err)
			return res
		}
		// peer-side configuration: the peer presents its credential regardless of any hint and
		// does not itself verify the proxy (we are judging the proxy's decisions only)
		peerCfg := &tls.Config{InsecureSkipVerify: true, MinVersion: tls.VersionTLS12}
		if peerCert != nil {
			if c.Role == "server" {
				pcert := peerCert
				peerCfg.GetClientCertificate = func(*tls.CertificateRequestInfo) (*tls.Certificate, error) { return pcert, nil }
			} else {
				peerCfg.Certificates = []tls.Certificate{*peerCert}
			}
		} else if c.Role == "server" {
			peerCfg.GetClientCertificate = func(*tls.CertificateRequestInfo) (*tls.Certificate, error) { return &tls.Certificate{}, nil }
		}
		// connection
		lis, _ := net.Listen(fmt.Sprintf("10.9.0.1:%d", 7000+i))
		dconn, derr := net.Dial(lis.Addr().String())
		if derr != nil {
			res.ToolError = derr.Error()
			return res
		}
		aconnI, _ := lis.Accept()
		aconn := aconnI.(*simnet.Conn)
		pair := net.Pairs()[len(net.Pairs())-1]
		var faultEnd *simnet.Conn
		if c.ConnFault == "cut" {
			faultEnd = dconn
			pair.CutAfter(dconn, int64(1+s.Draw(1500)), nil)
		} else if c.ConnFault == "flip" {
			faultEnd = dconn
			if s.Draw(2) == 1 {
				faultEnd = aconn
			}
			pair.FlipByte(faultEnd, int64(1+s.Draw(1200)))
		}
		// the dialer is the TLS client
		var proxyTLS, peerTLS *tls.Conn
		if c.Role == "server" {
			proxyTLS, peerTLS = tls.Server(aconn, proxyCfg), tls.Client(dconn, peerCfg)
		} else {
			proxyTLS, peerTLS = tls.Client(dconn, proxyCfg), tls.Server(aconn, peerCfg)
		}
		type hs struct {
			err error
			ok  bool
		}
		pch, qch := make(chan hs, 1), make(chan hs, 1)
		deadline := time.Now().Add(20 * time.Second)
		_ = dconn.SetDeadline(deadline)
		_ = aconn.SetDeadline(deadline)
		run := func(c *tls.Conn, out chan hs, first bool) {
			if err := c.Handshake(); err != nil {
				out <- hs{err: err}
				_ = c.Close()
				return
			}
			// one application byte each way
			buf := make([]byte, 1)
			if first {
				if _, err := c.Write([]byte{0x42}); err != nil {
					out <- hs{err: err}
					_ = c.Close()
					return
				}
				if _, err := c.Read(buf); err != nil {
					out <- hs{err: err}
					_ = c.Close()
					return
				}
			} else {
				if _, err := c.Read(buf); err != nil {
					out <- hs{err: err}
					_ = c.Close()
					return
				}
				if _, err := c.Write([]byte{0x43}); err != nil {
					out <- hs{err: err}
					_ = c.Close()
					return
				}
			}
			out <- hs{ok: true}
		}
		go run(proxyTLS, pch, c.Role == "client")
		go run(peerTLS, qch, c.Role == "server")
		pr, qr := <-pch, <-qch
		_ = proxyTLS.Close()
		_ = peerTLS.Close()
		_ = lis.Close()
		c.Admitted = pr.ok && qr.ok
		if pr.err != nil {
			c.ProxyErr = pr.err.Error()
		}
		if qr.err != nil {
			c.PeerErr = qr.err.Error()
		}
		// ---- reference: independent verification at the bubble's current time ----
		authentic := false
		if leaf != nil {
			pool := x509.NewCertPool()
			pool.AddCert(ca.cert)
			opts := x509.VerifyOptions{Roots: pool, CurrentTime: time.Now(), KeyUsages: []x509.ExtKeyUsage{x509.ExtKeyUsageClientAuth}}
			if c.Role == "client" {
				opts.KeyUsages = []x509.ExtKeyUsage{x509.ExtKeyUsageServerAuth}
				opts.DNSName = tlsServerName
			}
			if _, verr := leaf.Verify(opts); verr == nil {
				authentic = true
			} else {
				c.VerifyNote = verr.Error()
			}
		} else {
			c.VerifyNote = "no certificate presented"
		}
		fired := faultEnd != nil && pair.FaultFired(faultEnd)
		if fired {
			faults[c.ConnFault]++
		} else if c.ConnFault != "none" {
			c.ConnFault += "(not reached)"
		}
		disturbed := fired
		switch {
		case disturbed && c.ConnFault == "cut":
			c.Expected = "either" // the cut may land after the exchange; judged below for verify=true only
		case !c.Verify:
			c.Expected = "either"
			if !disturbed && (leaf != nil || c.Role == "server") {
				c.Expected = "either"
			}
		case authentic && !disturbed:
			c.Expected = "admit"
		case !authentic:
			c.Expected = "reject"
		default:
			c.Expected = "either"
		}
		if c.Verify && !authentic && c.Admitted {
			violate("admitted-unauthenticated-peer", "proxy as TLS %s with CA verification configured (trust anchor: %s) completed a connection with a peer presenting a '%s' credential (%s); clock jump %s, connection fault %s",
				c.Role, c.Trust, c.PeerKind, c.VerifyNote, c.ClockJump, c.ConnFault)
		}
		if c.Expected == "admit" && !c.Admitted {
			violate("rejected-authentic-peer", "proxy as TLS %s refused a peer whose certificate chains to the configured trust anchor (%s; kind %s, clock jump %s): proxy error %q, peer error %q",
				c.Role, c.Trust, c.PeerKind, c.ClockJump, c.ProxyErr, c.PeerErr)
		}
		// (a flipped byte need not break the handshake - e.g. the legacy record version is
		// ignored - so corruption is only a stress for the two clauses above, not a clause)
		s.Log("case %d: %+v", i, c)
		cases = append(cases, c)
	}
	res.Config = cases
	res.Violations = viol
	res.Faults = faults
	res.Nontrivial = len(cases) > 0
	return res
}
