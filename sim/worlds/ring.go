package worlds

import (
	"fmt"
	"sort"

	"github.com/temporalio/s2s-proxy/proxy"

	"vsim/simrt"
)

// ---------------------------------------------------------------------------
// RING: component-level driver for proxyIDRingBuffer (C05). Sequential seeded
// operation histories checked step by step against a plain slice model. This part is
// model-based random testing of a sequential component, not simulation; gap repair and
// capacity-1 growth are unreachable through the running system (proxy ids are contiguous
// there), which is why it exists. The in-system half of C05 runs in the ROUTE world.
// ---------------------------------------------------------------------------

type refEntry struct {
	pid   int64
	shard ShardID
	task  int64
	hole  bool
}

type ringRef struct{ e []refEntry }

func (m *ringRef) append(pid int64, sh ShardID, task int64) {
	if n := len(m.e); n > 0 {
		for next := m.e[n-1].pid + 1; next < pid; next++ {
			m.e = append(m.e, refEntry{pid: next, hole: true})
		}
	}
	m.e = append(m.e, refEntry{pid: pid, shard: sh, task: task})
}

func (m *ringRef) aggregate(w int64) (map[ShardID]int64, int) {
	res := map[ShardID]int64{}
	n := 0
	for _, x := range m.e {
		if x.pid > w {
			break
		}
		n++
		if x.hole {
			continue
		}
		if cur, ok := res[x.shard]; !ok || x.task > cur {
			res[x.shard] = x.task
		}
	}
	return res, n
}

func (m *ringRef) discard(n int) {
	if n <= 0 {
		return
	}
	if n > len(m.e) {
		n = len(m.e)
	}
	m.e = m.e[n:]
}

type ringOp struct {
	Kind string `json:"kind"`
	A    int64  `json:"a"`
	B    int64  `json:"b,omitempty"`
	C    int64  `json:"c,omitempty"`
}

func fmtAgg(m map[ShardID]int64) string {
	var ks []string
	for k, v := range m {
		ks = append(ks, fmt.Sprintf("%s=%d", sidStr(k), v))
	}
	sort.Strings(ks)
	return fmt.Sprint(ks)
}

// RunRing draws one operation history from the tape and checks it.
func RunRing(s *simrt.Sim) *Result {
	res := &Result{World: "RING", Profile: "C05ring"}
	capacity := []int{1, 2, 3, 4, 8, 0, -1, 16}[s.Draw(8)]
	nShards := 1 + s.Draw(3)
	nOps := 3 + s.Draw(40)
	gapPct := []int{0, 0, 10, 40}[s.Draw(4)]
	ring := proxy.VsimNewRing(capacity)
	ref := &ringRef{}
	nextPID := int64(1 + s.Draw(5))
	nextTask := make([]int64, nShards)
	var ops []ringOp
	lastCount := 0
	grew, wrapped, holes := false, false, false
	fail := func(clause, format string, args ...any) {
		if len(res.Violations) < 5 {
			res.Violations = append(res.Violations, Violation{Property: "C05", Clause: clause, Detail: fmt.Sprintf(format, args...) + fmt.Sprintf(" after ops %+v", ops), Decision: len(ops)})
		}
	}
	for i := 0; i < nOps && len(res.Violations) == 0; i++ {
		switch k := s.Draw(10); {
		case k < 5: // append
			if s.Draw(100) < gapPct {
				nextPID += int64(1 + s.Draw(3))
				holes = true
			}
			sh := s.Draw(nShards)
			nextTask[sh] += int64(1 + s.Draw(4))
			shard := sid(1, int32(sh+1))
			c0, _, _, _ := ring.Shape()
			ring.Append(nextPID, shard, nextTask[sh])
			ref.append(nextPID, shard, nextTask[sh])
			c1, h1, sz1, _ := ring.Shape()
			if c1 != c0 {
				grew = true
			}
			if h1+sz1 > c1 {
				wrapped = true
			}
			ops = append(ops, ringOp{"append", nextPID, int64(sh + 1), nextTask[sh]})
			s.Log("append %d %d %d", nextPID, sh+1, nextTask[sh])
			nextPID++
		case k < 8: // aggregate at a watermark below / inside / above the stored range
			lo := nextPID - int64(len(ref.e)) - 2
			w := lo + int64(s.Draw(len(ref.e)+5))
			got, gn := ring.AggregateUpTo(w)
			want, wn := ref.aggregate(w)
			ops = append(ops, ringOp{"aggregate", w, 0, 0})
			s.Log("aggregate %d", w)
			if fmtAgg(got) != fmtAgg(want) {
				fail("translation", "AggregateUpTo(%d) = %s, reference %s", w, fmtAgg(got), fmtAgg(want))
			}
			if gn != wn {
				fail("count", "AggregateUpTo(%d) covers %d entries, reference %d", w, gn, wn)
			}
			lastCount = gn
		default: // discard what the last aggregation covered (or an arbitrary count)
			n := lastCount
			if s.Draw(4) == 0 {
				n = s.Draw(len(ref.e) + 3)
			}
			ring.Discard(n)
			ref.discard(n)
			lastCount = 0
			ops = append(ops, ringOp{"discard", int64(n), 0, 0})
			s.Log("discard %d", n)
		}
		_, _, sz, start := ring.Shape()
		if sz != len(ref.e) {
			fail("size", "ring holds %d entries, reference %d", sz, len(ref.e))
		}
		if sz > 0 && start != ref.e[0].pid {
			fail("start", "ring starts at proxy id %d, reference %d", start, ref.e[0].pid)
		}
	}
	// final full translation
	if len(res.Violations) == 0 {
		got, _ := ring.AggregateUpTo(nextPID + 10)
		want, _ := ref.aggregate(nextPID + 10)
		if fmtAgg(got) != fmtAgg(want) {
			fail("translation", "final AggregateUpTo = %s, reference %s", fmtAgg(got), fmtAgg(want))
		}
	}
	if grew {
		s.Probe("ring-grew")
	}
	if wrapped {
		s.Probe("ring-wrapped")
	}
	if grew && wrapped {
		s.Probe("ring-grew-and-wrapped")
	}
	if holes {
		s.Probe("ring-gap-repair")
	}
	res.Config = map[string]any{"capacity": capacity, "shards": nShards, "ops": len(ops), "gap_pct": gapPct}
	res.Nontrivial = len(ops) >= 3
	res.Notes = map[string]string{"ops": fmt.Sprint(ops)}
	return res
}
