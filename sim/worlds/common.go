package worlds

import (
	"context"
	"fmt"
	"os"
	"sort"
	"strings"

	"go.temporal.io/server/api/adminservice/v1"
	"go.temporal.io/server/client/history"
	"go.temporal.io/server/common/log"
	"go.temporal.io/server/common/log/tag"
	"google.golang.org/grpc"

	"github.com/temporalio/s2s-proxy/logging"

	"vsim/simio"
	"vsim/simrt"
)

// ShardID is Temporal's (cluster, shard) pair.
type ShardID = history.ClusterShardID

func sid(c, s int32) ShardID { return ShardID{ClusterID: c, ShardID: s} }

func sidStr(s ShardID) string { return fmt.Sprintf("%d:%d", s.ClusterID, s.ShardID) }

// Violation is one oracle failure.
type Violation struct {
	Property string `json:"property"`
	Clause   string `json:"clause"`
	Sig      string `json:"sig,omitempty"`
	Detail   string `json:"detail"`
	Decision int    `json:"decision"`
	VTimeMs  int64  `json:"vtime_ms"`
}

// Result is what one simulated run reports.
type Result struct {
	Seed       uint64            `json:"seed"`
	World      string            `json:"world"`
	Profile    string            `json:"profile"`
	Config     any               `json:"config"`
	Violations []Violation       `json:"violations,omitempty"`
	Crash      *simrt.Crash      `json:"crash,omitempty"`
	Stats      simrt.Stats       `json:"stats"`
	Probes     map[string]int    `json:"probes,omitempty"`
	Faults     map[string]int    `json:"faults,omitempty"`
	VirtualMs  int64             `json:"virtual_ms"`
	TraceHash  string            `json:"trace_hash"`
	SchedHash  string            `json:"sched_hash"`
	Nontrivial bool              `json:"nontrivial"`
	Live       []string          `json:"live,omitempty"`
	Trace      []string          `json:"trace,omitempty"`
	Tape       []uint32          `json:"tape,omitempty"`
	Notes      map[string]string `json:"notes,omitempty"`
	ToolError  string            `json:"tool_error,omitempty"`
}

// noopLoggers implements logging.LoggerProvider without output.
type noopLoggers struct{}

func (noopLoggers) Get(logging.LogComponentName) log.Logger {
	if os.Getenv("VSIM_PROXYLOG") != "" {
		return printLogger{}
	}
	return log.NewNoopLogger()
}

// curSim is the simulation of the run in progress (one run at a time per process).
var curSim *simrt.Sim

// printLogger copies the proxy's own log lines into the trace when VSIM_PROXYLOG is set
// (debugging of a replay only: it changes the trace hash, but adds no scheduling point and
// draws nothing from the tape, so the schedule replays unchanged).
type printLogger struct{ tags []tag.Tag }

func (p printLogger) out(lvl, msg string, tags []tag.Tag) {
	var sb strings.Builder
	for _, t := range append(append([]tag.Tag(nil), p.tags...), tags...) {
		fmt.Fprintf(&sb, " %s=%v", t.Key(), t.Value())
	}
	if curSim != nil {
		curSim.Log("L %s %s%s", lvl, msg, sb.String())
	}
}
func (p printLogger) Debug(msg string, tags ...tag.Tag)  { p.out("debug", msg, tags) }
func (p printLogger) Info(msg string, tags ...tag.Tag)   { p.out("info", msg, tags) }
func (p printLogger) Warn(msg string, tags ...tag.Tag)   { p.out("warn", msg, tags) }
func (p printLogger) Error(msg string, tags ...tag.Tag)  { p.out("error", msg, tags) }
func (p printLogger) DPanic(msg string, tags ...tag.Tag) { p.out("dpanic", msg, tags) }
func (p printLogger) Panic(msg string, tags ...tag.Tag)  { p.out("panic", msg, tags) }
func (p printLogger) Fatal(msg string, tags ...tag.Tag)  { p.out("fatal", msg, tags) }
func (p printLogger) With(tags ...tag.Tag) log.Logger {
	return printLogger{tags: append(append([]tag.Tag(nil), p.tags...), tags...)}
}
func (n noopLoggers) With(tags ...tag.Tag) logging.LoggerProvider { return n }

// adminClient is the stand-in AdminServiceClient handed to the proxy. Only stream
// opening is implemented; any other method would nil-panic (none is reachable here).
type adminClient struct {
	adminservice.AdminServiceClient
	name string
	open func(ctx context.Context) (adminservice.AdminService_StreamWorkflowReplicationMessagesClient, error)
}

func (c *adminClient) StreamWorkflowReplicationMessages(ctx context.Context, opts ...grpc.CallOption) (adminservice.AdminService_StreamWorkflowReplicationMessagesClient, error) {
	simrt.Yield(-1)
	return c.open(ctx)
}

var _ = simio.ClientEnd{}

func sortedKeys[V any](m map[string]V) []string {
	ks := make([]string, 0, len(m))
	for k := range m {
		ks = append(ks, k)
	}
	sort.Strings(ks)
	return ks
}

// untilW runs a world until an extra condition holds (probe tasks between phases).
type untilW struct {
	simrt.World
	done func() bool
}

func (u untilW) Done() bool { return u.done() }
