package worlds

import (
	"bufio"
	"encoding/json"
	"fmt"
	"os"
	"strconv"
	"strings"
	"testing"
	"testing/synctest"
	"time"

	"vsim/simrt"
)

// runner executes one run of a profile inside an existing simulation.
type runner func(s *simrt.Sim) *Result

var profiles = map[string]runner{}

func register(name string, r runner) { profiles[name] = r }

func init() {
	register("C01", func(s *simrt.Sim) *Result {
		return RunRoute(s, RouteProfile{Name: "C01", NoAckTarget: true, CheckC02End: true, Cleanup: true})
	})
	register("C02", func(s *simrt.Sim) *Result {
		return RunRoute(s, RouteProfile{Name: "C02", CheckC02End: true, Cleanup: true})
	})
	register("C03", func(s *simrt.Sim) *Result {
		return RunRoute(s, RouteProfile{Name: "C03", NoAckTarget: true, Liveness: true, CheckC02End: true, Cleanup: true})
	})
	register("C04", func(s *simrt.Sim) *Result {
		return RunRoute(s, RouteProfile{Name: "C04", Faults: true, Cleanup: true})
	})
	register("ROUTEmulti", func(s *simrt.Sim) *Result {
		return RunRoute(s, RouteProfile{Name: "ROUTEmulti", Multi: true, NoAckTarget: true, Liveness: true, CheckC02End: true, CheckC05: true})
	})
	register("C04multi", func(s *simrt.Sim) *Result {
		return RunRoute(s, RouteProfile{Name: "C04multi", Multi: true, Faults: true})
	})
	register("C08multi", func(s *simrt.Sim) *Result {
		return RunRoute(s, RouteProfile{Name: "C08multi", Multi: true, Faults: true, Churn: true, Cleanup: true})
	})
	register("C04crash", func(s *simrt.Sim) *Result {
		return RunRoute(s, RouteProfile{Name: "C04crash", Multi: true, Faults: true, Crash: true, Cleanup: true})
	})
	register("C04restart", func(s *simrt.Sim) *Result {
		return RunRoute(s, RouteProfile{Name: "C04restart", Multi: true, Faults: true, Crash: true, Restart: true, Cleanup: true})
	})
	register("C04bias", func(s *simrt.Sim) *Result {
		return RunRoute(s, RouteProfile{Name: "C04bias", Faults: true, BiasFaults: true, Cleanup: true})
	})
	register("C05ring", RunRing)
	register("C05sys", func(s *simrt.Sim) *Result {
		return RunRoute(s, RouteProfile{Name: "C05sys", CheckC05: true, CheckC02End: true, Cleanup: true})
	})
	register("C06", func(s *simrt.Sim) *Result { return RunPass(s, PassProfile{Name: "C06", Faults: true}) })
	register("C06clean", func(s *simrt.Sim) *Result { return RunPass(s, PassProfile{Name: "C06clean"}) })
	register("C20", func(s *simrt.Sim) *Result { return RunPass(s, PassProfile{Name: "C20", BadMetadata: true}) })
	register("C20route", func(s *simrt.Sim) *Result {
		return RunRoute(s, RouteProfile{Name: "C20route", BadMetadata: true, Cleanup: true})
	})
	register("C07", RunWhole)
	register("C09", RunGossip)
	register("C19", RunTLS)
	register("C10", func(s *simrt.Sim) *Result { return RunMux(s, MuxProfile{Name: "C10"}) })
	register("C11", func(s *simrt.Sim) *Result { return RunMux(s, MuxProfile{Name: "C11", RPCs: true}) })
	register("C11race", func(s *simrt.Sim) *Result { return RunMux(s, MuxProfile{Name: "C11race", Race: true}) })
	register("C19mux", func(s *simrt.Sim) *Result { return RunMux(s, MuxProfile{Name: "C19mux", TLS: true}) })
	register("C08", func(s *simrt.Sim) *Result {
		return RunRoute(s, RouteProfile{Name: "C08", Faults: true, Churn: true, Cleanup: true})
	})
}

func envInt(name string, def int64) int64 {
	if v := os.Getenv(name); v != "" {
		if n, err := strconv.ParseInt(v, 10, 64); err == nil {
			return n
		}
	}
	return def
}

// runOne executes a single simulated run in a fresh synctest bubble.
func runOne(t *testing.T, profile string, seed uint64, tape *simrt.Tape, trace bool) (res *Result) {
	r, ok := profiles[profile]
	if !ok {
		return &Result{Seed: seed, Profile: profile, ToolError: "unknown profile " + profile}
	}
	start := time.Now()
	defer func() {
		if p := recover(); p != nil {
			msg := fmt.Sprint(p)
			if strings.Contains(msg, "blocked goroutines remain") && res != nil {
				return // tasks abandoned at the end of the run; already reported in res.Live
			}
			if res == nil {
				res = &Result{Seed: seed, Profile: profile}
			}
			res.ToolError = "panic outside the system under test: " + msg
		}
		_ = start
	}()
	synctest.Test(t, func(t *testing.T) {
		s := simrt.New(tape, simrt.Options{TraceFull: trace, MaxDecisions: 1 << 30, MaxVirtual: 30 * time.Minute})
		s.Verbose = os.Getenv("VSIM_VERBOSE") != ""
		curSim = s
		res = r(s)
		res.Seed = seed
		res.Stats = s.Stats
		res.Probes = s.Probes()
		res.VirtualMs = s.Now().Milliseconds()
		res.TraceHash = fmt.Sprintf("%016x", s.TraceHash())
		if trace {
			res.Trace = s.TraceLines()
		}
		res.Tape = tape.Recorded()
		s.Shutdown()
	})
	return res
}

// TestWorker is the worker-process entry point used by the orchestrator (cmd/vsim).
//
//	VSIM_PROFILE   profile name
//	VSIM_SEEDS     "start:count"
//	VSIM_REPLAY    path of a JSON file {"tape":[...]} to replay instead of seeds
//	VSIM_TRACE     1 = include the full trace in every result
//	VSIM_KEEPTAPE  1 = include the tape in every result
func TestWorker(t *testing.T) {
	profile := os.Getenv("VSIM_PROFILE")
	if profile == "" {
		t.Skip("not invoked by the orchestrator")
	}
	out := bufio.NewWriterSize(os.Stdout, 1<<16)
	defer out.Flush()
	emit := func(r *Result) {
		if os.Getenv("VSIM_KEEPTAPE") == "" && len(r.Violations) == 0 && r.Crash == nil {
			r.Tape = nil
		}
		b, err := json.Marshal(r)
		if err != nil {
			b, _ = json.Marshal(&Result{Seed: r.Seed, Profile: r.Profile, ToolError: "marshal: " + err.Error()})
		}
		out.WriteString("RESULT ")
		out.Write(b)
		out.WriteString("\n")
		out.Flush()
	}
	trace := os.Getenv("VSIM_TRACE") != ""
	if rp := os.Getenv("VSIM_REPLAY"); rp != "" {
		b, err := os.ReadFile(rp)
		if err != nil {
			t.Fatal(err)
		}
		var f struct {
			Seed uint64   `json:"seed"`
			Tape []uint32 `json:"tape"`
		}
		if err := json.Unmarshal(b, &f); err != nil {
			t.Fatal(err)
		}
		emit(runOne(t, profile, f.Seed, simrt.NewReplayTape(f.Tape), true))
		return
	}
	var startSeed, count uint64 = 1, 1
	if sp := os.Getenv("VSIM_SEEDS"); sp != "" {
		parts := strings.Split(sp, ":")
		startSeed, _ = strconv.ParseUint(parts[0], 10, 64)
		if len(parts) > 1 {
			count, _ = strconv.ParseUint(parts[1], 10, 64)
		}
	}
	deadline := time.Now().Add(time.Duration(envInt("VSIM_WALL_MS", 1<<40)) * time.Millisecond)
	for i := uint64(0); i < count; i++ {
		if time.Now().After(deadline) {
			break
		}
		seed := startSeed + i
		emit(runOne(t, profile, seed, simrt.NewSeedTape(seed), trace))
	}
}
