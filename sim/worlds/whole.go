package worlds

import (
	"context"
	"fmt"
	"io"
	"math/big"
	"strconv"
	"sync"
	"time"

	"go.temporal.io/server/api/adminservice/v1"
	replicationv1 "go.temporal.io/server/api/replication/v1"
	"go.temporal.io/server/client/history"
	servercommon "go.temporal.io/server/common"
	"google.golang.org/grpc"
	"google.golang.org/grpc/codes"
	"google.golang.org/grpc/credentials/insecure"
	"google.golang.org/grpc/metadata"
	"google.golang.org/grpc/status"

	"github.com/temporalio/s2s-proxy/config"
	"github.com/temporalio/s2s-proxy/proxy"

	"vsim/simnet"
	"vsim/simrt"
)

// ---------------------------------------------------------------------------
// WHOLE world (C07): one really assembled ClusterConnection (NewClusterConnection +
// Start, unmodified apart from the net/grpc dial seams) in LCM mode between two fake
// Temporal clusters that are real gRPC servers on the simulated network. The LCM
// parameters of each direction are computed inside NewClusterConnection, so only a
// whole-system run checks the wiring the property talks about. The quantifier (pairs of
// shard counts x LCM shard ids) is sampled per run (configuration swarm), not enumerated.
// ---------------------------------------------------------------------------

type fakeCluster struct {
	adminservice.UnimplementedAdminServiceServer
	name   string
	id     int32
	shards int32
	mu     sync.Mutex
	opens  []metadata.MD
	// failDescribe: number of coming DescribeCluster calls that fail with Unavailable (a
	// transient fault of the serving cluster or of the connection to it)
	failDescribe int
}

func (f *fakeCluster) DescribeCluster(ctx context.Context, in *adminservice.DescribeClusterRequest) (*adminservice.DescribeClusterResponse, error) {
	f.mu.Lock()
	fail := f.failDescribe > 0
	if fail {
		f.failDescribe--
	}
	f.mu.Unlock()
	if fail {
		return nil, status.Error(codes.Unavailable, "transport is closing")
	}
	return &adminservice.DescribeClusterResponse{ClusterName: f.name, HistoryShardCount: f.shards, FailoverVersionIncrement: 10, InitialFailoverVersion: int64(f.id)}, nil
}

func (f *fakeCluster) StreamWorkflowReplicationMessages(st adminservice.AdminService_StreamWorkflowReplicationMessagesServer) error {
	md, _ := metadata.FromIncomingContext(st.Context())
	f.mu.Lock()
	f.opens = append(f.opens, md.Copy())
	f.mu.Unlock()
	if err := st.Send(&adminservice.StreamWorkflowReplicationMessagesResponse{
		Attributes: &adminservice.StreamWorkflowReplicationMessagesResponse_Messages{
			Messages: &replicationv1.WorkflowReplicationMessages{ExclusiveHighWatermark: 777}}}); err != nil {
		return err
	}
	for {
		if _, err := st.Recv(); err != nil {
			return nil
		}
	}
}

type WholeConfig struct {
	Local  int32
	Remote int32
	Probes int
}

type wholeProbe struct {
	Dir       string `json:"dir"` // "outbound": cluster A (local) calls; "inbound": cluster B (remote) calls
	Kind      string `json:"kind"`
	Shard     int32  `json:"shard"`
	Done      bool   `json:"done"`
	Err       string `json:"err,omitempty"`
	GotCount  int32  `json:"got_count,omitempty"`
	FwdClient string `json:"fwd_client,omitempty"`
	FwdServer string `json:"fwd_server,omitempty"`
	Relayed   bool   `json:"relayed,omitempty"`
}

var wholeCounts = []int32{1, 2, 3, 4, 5, 6, 7, 8, 9, 10, 12, 15, 16, 24, 32, 48, 64, 100, 128, 256, 500, 512, 1000, 1024, 2048, 3000, 4096, 8192, 9973, 12345, 16383, 16384}

type wholeWorld struct {
	s       *simrt.Sim
	pending int
}

func (w *wholeWorld) Actions() []simrt.Action { return nil }
func (w *wholeWorld) NextWake() time.Time     { return time.Now().Add(time.Second) }
func (w *wholeWorld) Done() bool              { return w.pending == 0 }

func bigLCM(a, b int32) int64 {
	x, y := big.NewInt(int64(a)), big.NewInt(int64(b))
	g := new(big.Int).GCD(nil, nil, x, y)
	return new(big.Int).Div(new(big.Int).Mul(x, y), g).Int64()
}

// RunWhole executes one WHOLE run.
func RunWhole(s *simrt.Sim) *Result {
	res := &Result{World: "WHOLE", Profile: "C07"}
	faults := map[string]int{}
	defer func() { res.Faults = faults }()
	var viol []Violation
	violate := func(clause, format string, args ...any) {
		if len(viol) < 20 {
			viol = append(viol, Violation{Property: "C07", Clause: clause, Detail: fmt.Sprintf(format, args...), VTimeMs: s.Now().Milliseconds()})
		}
	}
	cfg := WholeConfig{}
	if s.Draw(3) == 0 {
		cfg.Local, cfg.Remote = int32(1+s.Draw(64)), int32(1+s.Draw(64))
	} else {
		cfg.Local, cfg.Remote = wholeCounts[s.Draw(len(wholeCounts))], wholeCounts[s.Draw(len(wholeCounts))]
	}
	cfg.Probes = 3 + s.Draw(6)
	res.Config = cfg
	lcm := bigLCM(cfg.Local, cfg.Remote)
	if lcm > 1<<31-1 {
		res.Nontrivial = false
		return res
	}
	s.SetFair(true)
	net := simnet.New()
	simnet.Use(net)
	lifetime, cancel := context.WithCancel(context.Background())
	defer cancel()
	clA := &fakeCluster{name: "A", id: 1, shards: cfg.Local}
	clB := &fakeCluster{name: "B", id: 2, shards: cfg.Remote}
	var servers []*grpc.Server
	for _, fc := range []*fakeCluster{clA, clB} {
		lis, err := net.Listen(fmt.Sprintf("cluster-%s:7233", fc.name))
		if err != nil {
			res.ToolError = err.Error()
			return res
		}
		srv := grpc.NewServer()
		adminservice.RegisterAdminServiceServer(srv, fc)
		servers = append(servers, srv)
		go func() { _ = srv.Serve(lis) }()
	}
	cc, err := proxy.NewClusterConnection(lifetime, config.ClusterConnConfig{
		Name: "whole",
		Local: config.ClusterDefinition{ConnectionType: config.ConnTypeTCP,
			TcpClient: config.TCPTLSInfo{ConnectionString: "cluster-A:7233"}, TcpServer: config.TCPTLSInfo{ConnectionString: "proxy-out:6233"}},
		Remote: config.ClusterDefinition{ConnectionType: config.ConnTypeTCP,
			TcpClient: config.TCPTLSInfo{ConnectionString: "cluster-B:7233"}, TcpServer: config.TCPTLSInfo{ConnectionString: "proxy-in:6333"}},
		ShardCountConfig: config.ShardCountConfig{Mode: config.ShardCountLCM, LocalShardCount: cfg.Local, RemoteShardCount: cfg.Remote},
	}, noopLoggers{})
	if err != nil {
		res.ToolError = "NewClusterConnection: " + err.Error()
		return res
	}
	w := &wholeWorld{s: s}
	w.pending++
	s.Spawn("cc.Start", func() { defer func() { w.pending-- }(); cc.Start() })
	s.ExtendBudget(1<<30, time.Minute)
	s.Run(w)
	dial := func(addr string) adminservice.AdminServiceClient {
		c, err := grpc.NewClient("passthrough:///"+addr, grpc.WithTransportCredentials(insecure.NewCredentials()), grpc.WithContextDialer(simnet.DialContext))
		if err != nil {
			return nil
		}
		return adminservice.NewAdminServiceClient(c)
	}
	fromA, fromB := dial("proxy-out:6233"), dial("proxy-in:6333")
	var probes []*wholeProbe
	for i := 0; i < cfg.Probes; i++ {
		p := &wholeProbe{Dir: []string{"outbound", "inbound"}[s.Draw(2)]}
		if s.Draw(4) == 0 {
			p.Kind = "describe"
		} else {
			p.Kind = "stream"
			switch s.Draw(4) {
			case 0:
				p.Shard = 1
			case 1:
				p.Shard = int32(lcm)
			default:
				p.Shard = int32(1 + int64(s.Draw(1<<30))%lcm)
			}
		}
		probes = append(probes, p)
		client, serving, callerID, servingID, callerCount := fromA, clB, int32(1), int32(2), cfg.Local
		if p.Dir == "inbound" {
			client, serving, callerID, servingID, callerCount = fromB, clA, 2, 1, cfg.Remote
		}
		before := 0
		serving.mu.Lock()
		before = len(serving.opens)
		if p.Kind == "describe" {
			// transient failures of the forwarded call: none, one or two in a row
			if k := s.Draw(4); k >= 2 {
				serving.failDescribe += k - 1
				faults["describe-unavailable"] += k - 1
			}
		}
		serving.mu.Unlock()
		w.pending++
		s.Spawn(fmt.Sprintf("probe%d", i), func() {
			defer func() { w.pending-- }()
			ctx, cancel := context.WithTimeout(context.Background(), 20*time.Second)
			defer cancel()
			if p.Kind == "describe" {
				// the caller (a Temporal cluster refreshing its metadata) tries again after a failure;
				// whatever answer it finally gets must carry the LCM
				var resp *adminservice.DescribeClusterResponse
				var err error
				for attempt := 0; attempt < 4; attempt++ {
					resp, err = client.DescribeCluster(ctx, &adminservice.DescribeClusterRequest{})
					simrt.AfterBlock()
					if err == nil {
						break
					}
				}
				p.Done = true
				if err != nil {
					p.Err = err.Error()
					return
				}
				p.GotCount = resp.HistoryShardCount
				return
			}
			md := metadata.Pairs(
				history.MetadataKeyClientClusterID, strconv.Itoa(int(callerID)),
				history.MetadataKeyClientShardID, strconv.Itoa(int((p.Shard-1)%callerCount)+1),
				history.MetadataKeyServerClusterID, strconv.Itoa(int(servingID)),
				history.MetadataKeyServerShardID, strconv.Itoa(int(p.Shard)),
			)
			st, err := client.StreamWorkflowReplicationMessages(metadata.NewOutgoingContext(ctx, md))
			simrt.AfterBlock()
			if err != nil {
				p.Done, p.Err = true, err.Error()
				return
			}
			m, err := st.Recv()
			simrt.AfterBlock()
			if err != nil {
				p.Done, p.Err = true, "recv: "+err.Error()
				return
			}
			p.Relayed = m.GetMessages().GetExclusiveHighWatermark() == 777
			_ = st.CloseSend()
			for {
				_, err := st.Recv()
				simrt.AfterBlock()
				if err != nil {
					if err != io.EOF {
						p.Err = "end: " + err.Error()
					}
					break
				}
			}
			p.Done = true
		})
		s.ExtendBudget(1<<30, 2*time.Minute)
		s.Run(w)
		if p.Kind == "stream" {
			serving.mu.Lock()
			if len(serving.opens) > before {
				o := serving.opens[len(serving.opens)-1]
				get := func(k string) string {
					if v := o.Get(k); len(v) > 0 {
						return v[0]
					}
					return ""
				}
				p.FwdClient = get(history.MetadataKeyClientClusterID) + "/" + get(history.MetadataKeyClientShardID)
				p.FwdServer = get(history.MetadataKeyServerClusterID) + "/" + get(history.MetadataKeyServerShardID)
			}
			serving.mu.Unlock()
		}
		// ---- oracle ----
		servingCount := cfg.Remote
		if p.Dir == "inbound" {
			servingCount = cfg.Local
		}
		switch {
		case !p.Done:
			violate("probe-stuck", "%s %s probe (shard %d) did not complete within 2 virtual minutes; counts local=%d remote=%d", p.Dir, p.Kind, p.Shard, cfg.Local, cfg.Remote)
		case p.Kind == "describe":
			if p.Err != "" {
				violate("describe-failed", "%s DescribeCluster failed: %s", p.Dir, p.Err)
			} else if int64(p.GotCount) != lcm {
				violate("wrong-shard-count", "%s DescribeCluster reported %d history shards, lcm(%d,%d) is %d", p.Dir, p.GotCount, cfg.Local, cfg.Remote, lcm)
			}
		default:
			want := int32((int64(p.Shard)-1)%int64(servingCount)) + 1
			if p.Err != "" || !p.Relayed {
				violate("stream-not-served", "%s stream for LCM shard %d of %d (local=%d remote=%d) was not served: err=%q relayed=%v", p.Dir, p.Shard, lcm, cfg.Local, cfg.Remote, p.Err, p.Relayed)
				break
			}
			wantClient := fmt.Sprintf("%d/%d", callerID, p.Shard)
			wantServer := fmt.Sprintf("%d/%d", servingID, want)
			if p.FwdClient != wantClient || p.FwdServer != wantServer {
				violate("wrong-shard-mapping", "%s stream for LCM shard %d (local=%d remote=%d, lcm %d) was forwarded with client=%s server=%s; expected client=%s server=%s", p.Dir, p.Shard, cfg.Local, cfg.Remote, lcm, p.FwdClient, p.FwdServer, wantClient, wantServer)
			}
			// hash consistency: workflows that hash to LCM shard s are owned by shard `want` under the serving cluster's own count
			found := 0
			for k := 0; k < 200000 && found < 8; k++ {
				ns, wf := "ns-"+strconv.Itoa(k%7), "wf-"+strconv.Itoa(k)
				if servercommon.WorkflowIDToHistoryShard(ns, wf, int32(lcm)) == p.Shard {
					found++
					if got := servercommon.WorkflowIDToHistoryShard(ns, wf, servingCount); got != want {
						violate("hash-inconsistent", "workflow %s/%s hashes to LCM shard %d but to shard %d (not %d) under count %d", ns, wf, p.Shard, got, want, servingCount)
					}
				}
			}
		}
		s.Log("probe %+v", *p)
	}
	cancel()
	for _, srv := range servers {
		srv.Stop()
	}
	w.pending = 1
	s.ExtendBudget(1<<30, 30*time.Second)
	s.Run(w) // let everything wind down (bounded by virtual time)
	res.Violations = viol
	res.Crash = s.Crashed()
	if res.Crash != nil {
		res.Violations = append(res.Violations, Violation{Property: "C07", Clause: "crash", Detail: res.Crash.Value})
	}
	res.Nontrivial = true
	res.Notes = map[string]string{"lcm": fmt.Sprint(lcm)}
	return res
}
