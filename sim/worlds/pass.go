package worlds

import (
	"context"
	"errors"
	"fmt"
	"strconv"
	"strings"
	"time"

	"go.temporal.io/server/api/adminservice/v1"
	enumsspb "go.temporal.io/server/api/enums/v1"
	persistencespb "go.temporal.io/server/api/persistence/v1"
	replicationv1 "go.temporal.io/server/api/replication/v1"
	"go.temporal.io/server/client/history"
	"google.golang.org/grpc/codes"
	"google.golang.org/grpc/metadata"
	"google.golang.org/grpc/status"
	"google.golang.org/protobuf/proto"

	"github.com/temporalio/s2s-proxy/common"
	"github.com/temporalio/s2s-proxy/config"
	"github.com/temporalio/s2s-proxy/proxy"

	"vsim/simio"
	"vsim/simrt"
)

// ---------------------------------------------------------------------------
// PASS world: the StreamWorkflowReplicationMessages handler in default or LCM mode
// (StreamForwarder), between a simulated initiator (server stream) and a simulated
// serving cluster (client stream opened through the stand-in AdminServiceClient).
// Serves C06 (faithful relay, joint termination) and C20 (stream-open metadata).
// ---------------------------------------------------------------------------

type PassProfile struct {
	Name        string
	Faults      bool // terminal events of every kind at arbitrary positions (C06)
	BadMetadata bool // C20: streams opened with hostile metadata, followed by well-formed ones
}

type PassConfig struct {
	Mode       string // "default" or "lcm"
	Local      int32
	Remote     int32
	NStreams   int
	Window     int
	MaxMsgs    int
	PKeep      int
	Budget     int
	OpenFail   bool
	StallClose bool
	GrowTheme  bool // C20: every hostile stream of the run carries a large representable shard id (concurrent growth of the bookkeeping)
}

type passConn struct {
	id      int
	name    string
	bad     bool // opened with hostile metadata (C20)
	md      map[string]string
	init    *simio.Stream
	cancel  context.CancelFunc
	src     *simio.Stream
	srcOpen int

	handlerDone bool
	handlerErr  error
	doneAt      time.Duration
	openedAt    time.Duration

	srcSent  []*simio.Res
	initGot  []*simio.Res
	initSent []*simio.Req
	srcGot   []*simio.Req

	terminal   string
	terminalAt time.Duration
	judged     bool
	served     bool // C20: at least one message relayed
	nextHigh   int64
	// the serving cluster does not end the stream when the proxy half-closes it (a stalled or
	// lazy peer): only the cancellation of the outgoing context can release the proxy's reader
	noEndOnClose bool
	faultFrom    int // decision from which this connection's terminal event may fire (spread over the run)
}

type PassWorld struct {
	s    *simrt.Sim
	prof PassProfile
	cfg  PassConfig

	lifetime  context.Context
	cancelAll context.CancelFunc
	server    adminservice.AdminServiceServer
	observer  *proxy.ReplicationStreamObserver
	conns     []*passConn
	nextSt    int
	phase     int // 0 chaos, 1 drain (no new faults), 2 close
	viol      []Violation
	faults    map[string]int
	relayed   int
	openFails int
	curOpen   *passConn // conn whose handler is currently calling Open (set around the call)
	badLeft   int
	goodAfter int
	baseLive  int // tasks that live as long as the proxy (observer printer)
	fairStart time.Duration
}

func (w *PassWorld) violate(prop, clause, format string, args ...any) {
	v := Violation{Property: prop, Clause: clause, Detail: fmt.Sprintf(format, args...), Decision: w.s.Stats.Decisions, VTimeMs: w.s.Now().Milliseconds()}
	w.s.Log("VIOLATION %s/%s: %s", prop, clause, v.Detail)
	if len(w.viol) < 20 {
		w.viol = append(w.viol, v)
	}
}

func NewPassWorld(s *simrt.Sim, prof PassProfile) *PassWorld {
	w := &PassWorld{s: s, prof: prof, faults: map[string]int{}}
	c := PassConfig{}
	c.Mode = []string{"default", "lcm"}[s.Draw(2)]
	pairs := [][2]int32{{4, 4}, {2, 4}, {4, 2}, {3, 2}, {2, 3}, {1, 5}, {6, 4}}
	p := pairs[s.Draw(len(pairs))]
	c.Local, c.Remote = p[0], p[1]
	c.NStreams = 1 + s.Draw(3)
	c.Window = []int{8, 1, 2, 3}[s.Draw(4)]
	c.MaxMsgs = 2 + s.Draw(8)
	c.PKeep = []int{90, 75, 50}[s.Draw(3)]
	c.Budget = []int{800, 400, 1600}[s.Draw(3)]
	if prof.Faults {
		c.OpenFail = s.Draw(8) == 7
		c.StallClose = s.Draw(4) == 3
	}
	w.cfg = c
	s.SetPKeep(c.PKeep)
	if prof.BadMetadata {
		w.badLeft = 1 + s.Draw(4)
		if s.Draw(3) == 0 {
			w.cfg.GrowTheme = true
			w.badLeft = 2 + s.Draw(3)
		}
	}
	w.lifetime, w.cancelAll = context.WithCancel(context.Background())
	scc := config.ShardCountConfig{}
	lcm := proxy.LCMParameters{}
	if c.Mode == "lcm" {
		scc = config.ShardCountConfig{Mode: config.ShardCountLCM, LocalShardCount: c.Local, RemoteShardCount: c.Remote}
		lcm = proxy.LCMParameters{LCM: common.LCM(c.Local, c.Remote), TargetShardCount: c.Remote}
	}
	client := &adminClient{name: "serving", open: func(ctx context.Context) (adminservice.AdminService_StreamWorkflowReplicationMessagesClient, error) {
		return w.openServing(ctx)
	}}
	w.observer = proxy.NewReplicationStreamObserver(noopLoggers{}.Get(""))
	w.server = proxy.NewAdminServiceProxyServer("outboundAdminService", client, client, proxy.AdminServiceOverrides{},
		[]string{"outbound"}, w.observer.ReportStreamValue, scc, lcm, proxy.RoutingParameters{}, noopLoggers{}, nil, w.lifetime)
	// the observer's periodic printer takes the same lock as ReportStreamValue
	w.observer.Start(w.lifetime, "pass", "outbound")
	w.baseLive = 1
	return w
}

// openServing is the serving cluster accepting (or refusing) the stream the proxy opens.
func (w *PassWorld) openServing(ctx context.Context) (adminservice.AdminService_StreamWorkflowReplicationMessagesClient, error) {
	// find the connection whose handler is opening: match by the initiator metadata the
	// forwarder passes along (client shard id is unique per connection here)
	md, _ := metadata.FromOutgoingContext(ctx)
	var pc *passConn
	if v := md.Get("x-vsim-conn"); len(v) > 0 {
		id, _ := strconv.Atoi(v[0])
		for _, c := range w.conns {
			if c.id == id {
				pc = c
			}
		}
	}
	if pc == nil {
		return nil, status.Error(codes.Internal, "vsim: stream opened for unknown connection")
	}
	pc.srcOpen++
	if w.cfg.OpenFail && pc.id == 1 && !pc.bad {
		w.openFails++
		w.faults["open-fail"]++
		w.terminalEvent(pc, "open-fail")
		return nil, status.Error(codes.Unavailable, "no connection available")
	}
	w.nextSt++
	st := simio.NewStream(fmt.Sprintf("srv-%s", pc.name), w.nextSt, ctx, w.cfg.Window)
	pc.src = st
	st.OnC2S = func(r *simio.Req) {}
	if w.cfg.StallClose && pc.id == 1 {
		st.StallCloseSend = true
	}
	w.s.Log("proxy opened serving stream for %s md=%v", pc.name, mdSummary(md))
	return simio.ClientEnd{S: st}, nil
}

func mdSummary(md metadata.MD) string {
	get := func(k string) string {
		if v := md.Get(k); len(v) > 0 {
			return v[0]
		}
		return "-"
	}
	return fmt.Sprintf("client=%s/%s server=%s/%s", get(history.MetadataKeyClientClusterID), get(history.MetadataKeyClientShardID),
		get(history.MetadataKeyServerClusterID), get(history.MetadataKeyServerShardID))
}

// hostile metadata values for C20 (values between ~2^21 and the overflow threshold are
// deliberately absent: they are served but make the observer allocate up to a gigabyte,
// and memory is out of scope here)
var badShardValues = []string{
	"0", "-1", "1023", "1024", "1025", "65535", "1048575", "1048576", "238609294", "238609295", "1073741824", "2147483647",
	"-2147483648", "2147483648", "4294967297", "99999999999999", "abc", "", "1e3", " 7", "0x10",
}

var growShardValues = []string{"1024", "1025", "1100", "1500", "2047", "2048", "3000", "4096", "10000", "16000", "65535", "100000", "500000", "1048575"}

// observerIdx is the index the proxy derives from a connection's metadata for its
// active-stream bookkeeping (Temporal's DecodeClusterShardMD: Atoi, then int32 conversion).
func (pc *passConn) observerIdx() (int32, bool) {
	n, err := strconv.Atoi(pc.md[history.MetadataKeyServerShardID])
	if err != nil {
		return 0, false
	}
	return int32(n), true
}

// checkBookkeeping (C20, "bookkeeping for one stream never blocks or corrupts bookkeeping for
// others"): reads the active-stream counters through the observer's own printer, from a task
// of its own (a lock left held shows as the probe not finishing), and compares them with the
// streams the harness knows: no counter for a shard id that no running handler carries; every
// well-formed stream that is being served is counted; nothing is counted once every handler
// has returned.
func (w *PassWorld) checkBookkeeping(final bool) {
	done := false
	var out string
	w.s.Spawn("probe:observer", func() { out = w.observer.PrintActiveStreams(); done = true })
	w.s.ExtendBudget(50000, 5*time.Second)
	w.s.Run(untilW{w, func() bool { return done || w.s.Crashed() != nil }})
	if w.s.Crashed() != nil {
		return
	}
	if !done {
		w.violate("C20", "bookkeeping-blocked", "reading the active-stream counters did not finish within 5 virtual seconds of fair execution; live tasks: %v", w.s.LiveTasks())
		return
	}
	printed := map[int32]bool{}
	for _, f := range strings.Split(strings.Trim(out, "[]"), ",") {
		if f == "" {
			continue
		}
		n, err := strconv.Atoi(f)
		if err != nil {
			w.violate("C20", "bookkeeping-corrupt", "unreadable active-stream report %q", out)
			return
		}
		printed[int32(n)] = true
	}
	may, must := map[int32]bool{}, map[int32]bool{}
	for _, pc := range w.conns {
		idx, ok := pc.observerIdx()
		if !ok || pc.handlerDone {
			continue
		}
		may[idx] = true
		if !pc.bad && pc.served {
			must[idx] = true
		}
	}
	for idx := range printed {
		if !may[idx] {
			w.violate("C20", "bookkeeping-corrupt", "active-stream report %s counts shard id %d, which no running stream handler carries (final=%v)", out, idx, final)
			return
		}
	}
	for idx := range must {
		if !printed[idx] {
			w.violate("C20", "bookkeeping-corrupt", "active-stream report %s does not count shard id %d of a well-formed stream that is being served", out, idx)
			return
		}
	}
}

func (w *PassWorld) open(bad bool) *passConn {
	id := len(w.conns) + 1
	pc := &passConn{id: id, bad: bad, name: fmt.Sprintf("c%d", id), nextHigh: 100}
	pc.noEndOnClose = w.s.Draw(3) == 2
	if w.prof.Faults && w.s.Draw(2) == 1 {
		pc.faultFrom = w.s.Stats.Decisions + w.s.Draw(maxInt(1, w.cfg.Budget-w.s.Stats.Decisions))
	}
	md := map[string]string{
		history.MetadataKeyClientClusterID: "1",
		history.MetadataKeyClientShardID:   strconv.Itoa(1 + (id-1)%int(maxi32(1, common.LCM(w.cfg.Local, w.cfg.Remote)))),
		history.MetadataKeyServerClusterID: "2",
		history.MetadataKeyServerShardID:   strconv.Itoa(1 + (id-1)%int(maxi32(1, common.LCM(w.cfg.Local, w.cfg.Remote)))),
	}
	if bad {
		keys := []string{history.MetadataKeyServerShardID, history.MetadataKeyClientShardID, history.MetadataKeyServerClusterID, history.MetadataKeyClientClusterID}
		n := 1 + w.s.Draw(2)
		for i := 0; i < n; i++ {
			k := keys[w.s.Draw(len(keys))]
			var v string
			kind := w.s.Draw(5)
			if w.cfg.GrowTheme {
				kind = 4
			}
			switch kind {
			case 0, 1:
				v = badShardValues[w.s.Draw(len(badShardValues))]
			case 2:
				v = strconv.Itoa(238609294 + w.s.Draw(1<<30))
			case 3:
				v = strconv.Itoa(-1 - w.s.Draw(1<<30))
			default:
				// a large but representable shard id: concurrent streams make the per-shard
				// bookkeeping grow to different sizes at the same time
				k = history.MetadataKeyServerShardID
				v = growShardValues[w.s.Draw(len(growShardValues))]
			}
			if v == "" {
				delete(md, k)
			} else {
				md[k] = v
			}
		}
	}
	pc.md = md
	pairs := []string{"x-vsim-conn", strconv.Itoa(id)}
	for _, k := range sortedKeys(md) {
		pairs = append(pairs, k, md[k])
	}
	ctx, cancel := context.WithCancel(metadata.NewOutgoingContext(context.Background(), metadata.Pairs(pairs...)))
	pc.cancel = cancel
	w.nextSt++
	pc.init = simio.NewStream("init-"+pc.name, w.nextSt, ctx, w.cfg.Window)
	pc.openedAt = w.s.Now()
	w.conns = append(w.conns, pc)
	w.s.Log("initiator opens %s bad=%v md=%v", pc.name, bad, md)
	w.s.Spawn("handler:"+pc.name, func() {
		err := w.server.StreamWorkflowReplicationMessages(simio.ServerEnd{S: pc.init})
		pc.init.ServerFinish(err)
		pc.handlerDone = true
		pc.handlerErr = err
		pc.doneAt = w.s.Now()
	})
	return pc
}

func maxi32(a, b int32) int32 {
	if a > b {
		return a
	}
	return b
}

func (w *PassWorld) terminalEvent(pc *passConn, kind string) {
	if pc.terminal == "" {
		pc.terminal = kind
		pc.terminalAt = w.s.Now()
		w.s.Log("terminal event on %s: %s", pc.name, kind)
	}
}

func (w *PassWorld) fault(pc *passConn, kind string) {
	w.faults[kind]++
	w.terminalEvent(pc, kind)
}

func (w *PassWorld) mkMsg(pc *passConn) *simio.Res {
	n := w.s.Draw(3)
	msgs := &replicationv1.WorkflowReplicationMessages{Priority: enumsspb.TASK_PRIORITY_HIGH}
	for i := 0; i < n; i++ {
		id := pc.nextHigh
		pc.nextHigh++
		msgs.ReplicationTasks = append(msgs.ReplicationTasks, &replicationv1.ReplicationTask{
			TaskType: enumsspb.REPLICATION_TASK_TYPE_SYNC_ACTIVITY_TASK, SourceTaskId: id,
			RawTaskInfo: &persistencespb.ReplicationTaskInfo{NamespaceId: "ns", WorkflowId: fmt.Sprintf("wf-%d", id%3), RunId: fmt.Sprintf("%s-%d", pc.name, id), TaskId: id},
		})
	}
	msgs.ExclusiveHighWatermark = pc.nextHigh
	return &simio.Res{Attributes: &adminservice.StreamWorkflowReplicationMessagesResponse_Messages{Messages: msgs}}
}

func (w *PassWorld) Actions() []simrt.Action {
	var acts []simrt.Action
	add := func(name string, weight int, fault bool, do func()) {
		prio := 0
		if weight < 0 {
			weight, prio = -weight, 1
		}
		acts = append(acts, simrt.Action{Name: name, Weight: weight, Fault: fault, Prio: prio, Do: do})
	}
	if w.phase == 0 {
		if len(w.conns) < w.cfg.NStreams+w.goodAfter {
			bad := w.badLeft > 0
			add("open", 5, false, func() {
				if bad {
					w.badLeft--
					if w.badLeft == 0 {
						w.goodAfter = 1 + w.s.Draw(2) // well-formed streams that must be served afterwards
					}
				}
				w.open(bad)
			})
		}
	}
	for _, pc := range w.conns {
		pc := pc
		initLive := !pc.init.Dead() && !pc.handlerDone
		// initiator side
		if initLive && pc.terminal == "" && !pc.init.ClientClosedSend && pc.init.CanPushC2S() && len(pc.initSent) < w.cfg.MaxMsgs && w.phase < 2 {
			add("init-ack:"+pc.name, -4, false, func() {
				r := &simio.Req{Attributes: &adminservice.StreamWorkflowReplicationMessagesRequest_SyncReplicationState{
					SyncReplicationState: &replicationv1.SyncReplicationState{InclusiveLowWatermark: int64(100 + len(pc.initSent))}}}
				pc.initSent = append(pc.initSent, r)
				pc.init.PushC2S(r)
			})
		}
		if pc.init.LenS2C() > 0 && !pc.init.Dead() {
			add("init-recv:"+pc.name, 8, false, func() { w.initRecv(pc) })
		}
		// serving side
		if st := pc.src; st != nil {
			if !st.Dead() && pc.terminal == "" && st.CanPushS2C() && len(pc.srcSent) < w.cfg.MaxMsgs && w.phase < 2 {
				add("srv-msg:"+pc.name, -4, false, func() {
					m := w.mkMsg(pc)
					pc.srcSent = append(pc.srcSent, m)
					st.PushS2C(m)
				})
			}
			if st.LenC2S() > 0 {
				add("srv-recv:"+pc.name, 8, false, func() { w.srvRecv(pc) })
			}
			if st.ClientClosedSend && !st.ServerEnded && !st.Dead() && !pc.noEndOnClose {
				add("srv-end:"+pc.name, 6, false, func() { st.ServerFinish(nil) })
			}
			if st.StallCloseSend && pc.terminal != "" && w.s.Now()-pc.terminalAt > 2500*time.Millisecond {
				add("srv-unstall:"+pc.name, 6, false, func() { st.StallCloseSend = false })
			}
		}
		// terminal events (C06)
		if w.prof.Faults && w.phase == 0 && pc.terminal == "" && initLive && w.s.Stats.Decisions >= pc.faultFrom {
			add("FAULT init-closesend:"+pc.name, 1, true, func() { w.fault(pc, "init-closesend"); pc.init.HarnessCloseSend() })
			add("FAULT init-cancel:"+pc.name, 1, true, func() { w.fault(pc, "init-cancel"); pc.cancel() })
			add("FAULT init-break:"+pc.name, 1, true, func() {
				w.fault(pc, "init-break")
				pc.init.Break(status.Error(codes.Unavailable, "transport is closing"))
			})
			add("FAULT init-sendfail:"+pc.name, 1, true, func() {
				w.faults["init-sendfail-armed"]++
				pc.init.SendFailServer = status.Error(codes.Unavailable, "send failed")
			})
			add("FAULT init-unknown:"+pc.name, 1, true, func() {
				if pc.init.CanPushC2S() {
					w.fault(pc, "init-unknown-kind")
					pc.init.PushC2S(&simio.Req{})
				}
			})
			if st := pc.src; st != nil && !st.Dead() {
				add("FAULT srv-eof:"+pc.name, 1, true, func() { w.fault(pc, "srv-eof"); st.ServerFinish(nil) })
				add("FAULT srv-error:"+pc.name, 1, true, func() {
					w.fault(pc, "srv-error")
					st.ServerFinish(status.Error(codes.Unavailable, "shard closed"))
				})
				add("FAULT srv-break:"+pc.name, 1, true, func() {
					w.fault(pc, "srv-break")
					st.Break(status.Error(codes.Unavailable, "transport is closing"))
				})
				add("FAULT srv-sendfail:"+pc.name, 1, true, func() {
					w.faults["srv-sendfail-armed"]++
					st.SendFailClient = status.Error(codes.Unavailable, "send failed")
				})
				add("FAULT srv-unknown:"+pc.name, 1, true, func() {
					if st.CanPushS2C() {
						w.fault(pc, "srv-unknown-kind")
						st.PushS2C(&simio.Res{})
					}
				})
			}
		}
		// clean close in the final phase
		if w.phase == 2 && initLive && pc.terminal == "" {
			add("close:"+pc.name, 5, false, func() { w.terminalEvent(pc, "clean-close"); pc.init.HarnessCloseSend() })
		}
	}
	return acts
}

func (w *PassWorld) initRecv(pc *passConn) {
	m := pc.init.PopS2C()
	k := len(pc.initGot)
	pc.initGot = append(pc.initGot, m)
	w.relayed++
	pc.served = true
	if k >= len(pc.srcSent) {
		w.violate("C06", "relay-extra", "%s: initiator received a message the serving side never sent (#%d)", pc.name, k)
		return
	}
	if !proto.Equal(m, pc.srcSent[k]) {
		w.violate("C06", "relay-content", "%s: message #%d reached the initiator modified or out of order", pc.name, k)
	}
}

func (w *PassWorld) srvRecv(pc *passConn) {
	r := pc.src.PopC2S()
	k := len(pc.srcGot)
	pc.srcGot = append(pc.srcGot, r)
	w.relayed++
	if k >= len(pc.initSent) {
		w.violate("C06", "relay-extra", "%s: serving side received a sync-state the initiator never sent (#%d)", pc.name, k)
		return
	}
	if !proto.Equal(r, pc.initSent[k]) {
		w.violate("C06", "relay-content", "%s: sync-state #%d reached the serving side modified or out of order", pc.name, k)
	}
}

// detect terminal events that the injected send failures turn into (a Send actually failed)
func (w *PassWorld) observeSendFailures() {
	for _, pc := range w.conns {
		if pc.terminal != "" {
			continue
		}
		if pc.handlerDone {
			// the handler ended on its own (e.g. an armed send failure fired, or hostile metadata was rejected)
			w.terminalEvent(pc, "handler-returned")
		}
	}
}

func (w *PassWorld) NextWake() time.Time { return time.Time{} }

func (w *PassWorld) Done() bool {
	w.observeSendFailures()
	w.judgeTermination(false)
	switch w.phase {
	case 0:
		return w.s.Stats.Decisions >= w.cfg.Budget
	case 1:
		// drain: every live connection has delivered everything that was sent, and every
		// connection that saw a terminal event has been judged
		for _, pc := range w.conns {
			if pc.terminal != "" && !pc.judged {
				return false
			}
			if pc.terminal != "" || pc.handlerDone {
				continue
			}
			if len(pc.initGot) != len(pc.srcSent) || len(pc.srcGot) != len(pc.initSent) {
				return false
			}
			if w.prof.BadMetadata && !pc.served {
				return false // C20: give every open stream the chance to relay its first message
			}
		}
		return true
	default:
		for _, pc := range w.conns {
			if !pc.handlerDone {
				return false
			}
		}
		return w.s.NumLive() <= w.baseLive
	}
}

const passTerminationBound = 5 * time.Second

// judgeTermination: once either side has ended or failed, within the bound the handler
// must have returned and the outgoing stream must have been half-closed or cancelled.
func (w *PassWorld) judgeTermination(final bool) {
	if w.phase == 0 {
		return // bounded-time clauses are only judged under the fair schedule of the later phases
	}
	for _, pc := range w.conns {
		if pc.terminal == "" || pc.judged {
			continue
		}
		ref := pc.terminalAt
		if w.fairStart > ref {
			ref = w.fairStart
		}
		since := w.s.Now() - ref
		outClosed := pc.src == nil || pc.src.ClientClosedSend || pc.src.ClientCtx().Err() != nil
		if pc.handlerDone && outClosed {
			pc.judged = true
			continue
		}
		if since > passTerminationBound || final {
			pc.judged = true
			if !pc.handlerDone {
				w.violate("C06", "handler-stuck", "%s: %v after '%s' the handler has not returned (outgoing stream closed=%v); live tasks: %v", pc.name, since, pc.terminal, outClosed, w.s.LiveTasks())
			} else if !outClosed {
				w.violate("C06", "half-open", "%s: handler returned after '%s' but the outgoing stream was neither half-closed nor cancelled", pc.name, pc.terminal)
			}
		}
	}
}

var errPass = errors.New("pass")

// RunPass executes one PASS run.
func RunPass(s *simrt.Sim, prof PassProfile) *Result {
	w := NewPassWorld(s, prof)
	res := &Result{World: "PASS", Profile: prof.Name, Config: w.cfg}
	finish := func() *Result {
		res.Faults = w.faults
		res.Crash = s.Crashed()
		if res.Crash != nil {
			w.violate("C20", "crash", "unrecovered panic in %s: %s", res.Crash.Task, res.Crash.Value)
		}
		res.Violations = w.viol
		nf := 0
		for _, v := range w.faults {
			nf += v
		}
		res.Nontrivial = w.relayed > 0 && (!prof.Faults || nf > 0) && (!prof.BadMetadata || w.badLeft == 0)
		return res
	}
	s.Run(w) // chaos
	if s.Crashed() != nil {
		return finish()
	}
	// drain: no new faults, everything sent gets delivered on connections that are still healthy
	w.phase = 1
	w.fairStart = s.Now()
	s.SetFair(true)
	s.ExtendBudget(200000, 30*time.Second)
	s.Run(w)
	if s.Crashed() != nil {
		return finish()
	}
	for _, pc := range w.conns {
		if pc.terminal == "" && !pc.handlerDone {
			if len(pc.initGot) != len(pc.srcSent) {
				w.violate("C06", "relay-incomplete", "%s: without any failure only %d of %d messages reached the initiator after 30 virtual seconds of fair execution", pc.name, len(pc.initGot), len(pc.srcSent))
			}
			if len(pc.srcGot) != len(pc.initSent) {
				w.violate("C06", "relay-incomplete", "%s: without any failure only %d of %d sync-states reached the serving side", pc.name, len(pc.srcGot), len(pc.initSent))
			}
		}
	}
	// C20: every stream opened was either served or rejected, and the well-formed ones opened
	// after hostile ones are served
	if prof.BadMetadata {
		for _, pc := range w.conns {
			rejected := pc.handlerDone && pc.handlerErr != nil
			if !pc.served && !rejected {
				kind := "hostile"
				if !pc.bad {
					kind = "well-formed"
				}
				w.violate("C20", "not-served", "%s stream %s (md %v) was neither served nor rejected within %v of fair execution (handler returned=%v err=%v); live tasks: %v",
					kind, pc.name, pc.md, s.Now()-pc.openedAt, pc.handlerDone, pc.handlerErr, s.LiveTasks())
			}
		}
	}
	if prof.BadMetadata && s.Crashed() == nil {
		w.checkBookkeeping(false)
	}
	// close
	w.phase = 2
	s.ExtendBudget(200000, 20*time.Second)
	s.Run(w)
	w.judgeTermination(true)
	if prof.BadMetadata && s.Crashed() == nil {
		w.checkBookkeeping(true)
	}
	if s.Crashed() == nil {
		w.cancelAll()
		w.baseLive = 0
		s.ExtendBudget(100000, 10*time.Second)
		s.Run(w)
		if live := s.LiveTasks(); len(live) > 0 {
			w.violate("C06", "stuck-worker", "tasks still alive after every stream ended and the proxy lifetime was cancelled: %v", live)
			res.Live = live
		}
	}
	return finish()
}

func maxInt(a, b int) int {
	if a > b {
		return a
	}
	return b
}
