package worlds

import (
	"context"
	"fmt"
	"io"
	"sort"
	"strings"
	"time"

	"github.com/hashicorp/yamux"
	"go.temporal.io/server/api/adminservice/v1"
	"go.temporal.io/server/common/log"
	"google.golang.org/grpc"
	"google.golang.org/grpc/codes"
	"google.golang.org/grpc/status"

	"github.com/temporalio/s2s-proxy/config"
	"github.com/temporalio/s2s-proxy/encryption"
	"github.com/temporalio/s2s-proxy/metrics"
	"github.com/temporalio/s2s-proxy/transport/grpcutil"
	"github.com/temporalio/s2s-proxy/transport/mux"

	"vsim/simnet"
	"vsim/simrt"
)

// ---------------------------------------------------------------------------
// MUX world: the mux session pool and the client connection built on it. Real:
// NewGRPCMuxManager -> NewMuxEstablisherProvider / NewMuxReceiverProvider (through the
// net seam), muxProvider, multiMuxManager, session.ManagedMuxSession, MultiClientConn,
// yamux, gRPC (client and the per-session servers). Stub: the network (vsim/simnet) and
// the peer, a harness endpoint that speaks real yamux and serves a tagged echo
// AdminService on every session. gRPC and yamux run their own goroutines, which the
// simulator does not schedule; verdicts are therefore taken at quiescent points only.
// ---------------------------------------------------------------------------

type MuxProfile struct {
	Name string
	RPCs bool // C11: issue RPCs at quiescent points and judge them
	// Race (C11): the peer stops accepting as soon as a session is up, and session kills are
	// aimed at sessions that have just come up - so that a removal racing the announcement of
	// the addition leaves its mark on the endpoint set until the end of the chaos phase.
	Race bool
	// TLS (C19): the mux endpoint (receiver or establisher provider, as assembled by
	// NewGRPCMuxManager from the connection's TLS settings) is configured with CA
	// verification; every peer connection presents a credential of a drawn kind.
	TLS bool
}

type MuxConfig struct {
	Role     string // "client": the proxy establishes; "server": the proxy receives
	MuxCount int
	PKeep    int
	Budget   int
	Faults   int
	FaultAt  []int // decision from which the k-th fault may fire (spread runs)
	Shutdown bool  // cancel the lifetime at an arbitrary decision of the chaos phase
}

type echoAdmin struct {
	adminservice.UnimplementedAdminServiceServer
	tag string
}

func (e *echoAdmin) DescribeCluster(ctx context.Context, in *adminservice.DescribeClusterRequest) (*adminservice.DescribeClusterResponse, error) {
	return &adminservice.DescribeClusterResponse{ClusterName: e.tag}, nil
}

type peerSess struct {
	idx    int
	pair   *simnet.Pair
	conn   *simnet.Conn
	sess   *yamux.Session
	srv    *grpc.Server
	tag    string
	closed bool
	served int
	bornAt int // decision at which the peer side of the session came up
}

type rpcRec struct {
	id       int
	issuedAt time.Duration
	liveAt   []string // proxy session ids live (registered and open) when issued
	done     bool
	err      error
	tag      string
	tookMs   int64
	judged   bool
}

type MuxWorld struct {
	s    *simrt.Sim
	prof MuxProfile
	cfg  MuxConfig

	net       *simnet.Net
	lifetime  context.Context
	cancelAll context.CancelFunc
	mcc       *grpcutil.MultiClientConn
	mgr       mux.MultiMuxManager
	client    adminservice.AdminServiceClient
	peerAddr  string
	proxyAddr string
	peerLis   *simnet.Listener

	peers      []*peerSess
	phase      int
	viol       []Violation
	faults     map[string]int
	faultsLeft int
	shutdownAt int
	shutDown   bool
	rpcs       []*rpcRec
	maxSeen    int
	served     map[string]int
	rpcOK      int
	fairStart  time.Duration
	noHeal     bool // C11 shrinking-set phase: the peer neither accepts nor dials
	stalled    []*simnet.Pair
	dirty      map[int]bool // connections that were ever partitioned, black-holed or write-stalled
	tls        *muxTLS
	everReg    map[string]bool // peer-sess tags of connections that the proxy has ever had registered as a session
}

func (w *MuxWorld) violate(prop, clause, format string, args ...any) {
	v := Violation{Property: prop, Clause: clause, Detail: fmt.Sprintf(format, args...), Decision: w.s.Stats.Decisions, VTimeMs: w.s.Now().Milliseconds()}
	w.s.Log("VIOLATION %s/%s: %s", prop, clause, v.Detail)
	if len(w.viol) < 20 {
		w.viol = append(w.viol, v)
	}
}

func NewMuxWorld(s *simrt.Sim, prof MuxProfile) (*MuxWorld, error) {
	w := &MuxWorld{s: s, prof: prof, faults: map[string]int{}, served: map[string]int{}}
	c := MuxConfig{}
	c.Role = []string{"client", "server"}[s.Draw(2)]
	c.MuxCount = 1 + s.Draw(4)
	c.PKeep = []int{90, 70, 50}[s.Draw(3)]
	c.Budget = []int{300, 150, 600}[s.Draw(3)]
	c.Faults = s.Draw(6)
	c.Shutdown = !prof.RPCs && s.Draw(3) == 2
	if prof.Race {
		c.Role = "client"
		c.Faults = 3 + s.Draw(6)
		c.PKeep = []int{70, 50, 30}[s.Draw(3)]
		c.Shutdown = false
	}
	if s.Draw(2) == 1 {
		// spread the faults over the run instead of letting the whole budget fire at its start
		for i := 0; i < c.Faults; i++ {
			c.FaultAt = append(c.FaultAt, s.Draw(c.Budget))
		}
		sort.Ints(c.FaultAt)
	}
	w.cfg = c
	s.SetPKeep(c.PKeep)
	w.faultsLeft = c.Faults
	if c.Shutdown {
		w.shutdownAt = 20 + s.Draw(c.Budget)
	}
	w.net = simnet.New()
	simnet.Use(w.net)
	mux.MuxManagerStartDelay = 0
	w.lifetime, w.cancelAll = context.WithCancel(context.Background())
	w.peerAddr, w.proxyAddr = "10.1.0.2:9000", "10.1.0.1:9001"
	var err error
	w.mcc, err = grpcutil.NewMultiClientConn(w.lifetime, "client-conn-x", grpcutil.MakeDialOptions(nil, metrics.GetGRPCClientMetrics("outbound"))...)
	if err != nil {
		return nil, err
	}
	w.client = adminservice.NewAdminServiceClient(w.mcc)
	proxySrv := grpc.NewServer()
	adminservice.RegisterAdminServiceServer(proxySrv, &echoAdmin{tag: "proxy"})
	cd := config.ClusterDefinition{MuxCount: c.MuxCount}
	var tlsCfg encryption.TLSConfig
	if prof.TLS {
		if w.tls, err = newMuxTLS(s, c.Role); err != nil {
			return nil, err
		}
		tlsCfg = w.tls.proxyCfg
	}
	if c.Role == "client" {
		cd.ConnectionType = config.ConnTypeMuxClient
		cd.MuxAddressInfo = config.TCPTLSInfo{ConnectionString: w.peerAddr, TLSConfig: tlsCfg}
		w.peerLis, err = w.net.Listen(w.peerAddr)
		if err != nil {
			return nil, err
		}
	} else {
		cd.ConnectionType = config.ConnTypeMuxServer
		cd.MuxAddressInfo = config.TCPTLSInfo{ConnectionString: w.proxyAddr, TLSConfig: tlsCfg}
	}
	w.mgr, err = mux.NewGRPCMuxManager(w.lifetime, "x", cd, w.mcc, proxySrv, log.NewNoopLogger())
	if err != nil {
		return nil, err
	}
	s.Spawn("mgr.Start", func() { w.mgr.Start() })
	return w, nil
}

func (w *MuxWorld) addPeerSession(conn *simnet.Conn, pair *simnet.Pair, client bool) {
	cfg := yamux.DefaultConfig()
	cfg.LogOutput = nil
	cfg.Logger = nil
	cfg.LogOutput = discard{}
	var sess *yamux.Session
	var err error
	var rw io.ReadWriteCloser = conn
	if w.tls != nil {
		// the dialer is the TLS client: the peer is the TLS client when it dialled the proxy
		rw = w.tls.wrap(w.s, conn, fmt.Sprintf("peer-sess-%d", pair.ID), client)
	}
	if client {
		sess, err = yamux.Client(rw, cfg)
	} else {
		sess, err = yamux.Server(rw, cfg)
	}
	if err != nil {
		_ = conn.Close()
		return
	}
	ps := &peerSess{idx: len(w.peers) + 1, pair: pair, conn: conn, sess: sess, tag: fmt.Sprintf("peer-sess-%d", pair.ID), bornAt: w.s.Stats.Decisions}
	ps.srv = grpc.NewServer()
	adminservice.RegisterAdminServiceServer(ps.srv, &echoAdmin{tag: ps.tag})
	go func() { _ = ps.srv.Serve(sess) }()
	w.peers = append(w.peers, ps)
	w.s.Log("peer session %s up", ps.tag)
}

type discard struct{}

func (discard) Write(p []byte) (int, error) { return len(p), nil }

// proxySessions: the manager's table, which of them are open, and the matching peer tags.
func (w *MuxWorld) proxySessions() (ids []string, live []string, tags map[string]string) {
	tags = map[string]string{}
	ss := mux.VsimSessions(w.mgr)
	for id, ms := range ss {
		ids = append(ids, id)
		if !ms.IsClosed() {
			live = append(live, id)
		}
		// match by connection: the proxy end's local/remote address pair identifies the simnet pair
		la, ra := ms.GetConnectionInfo()
		for _, p := range w.net.Pairs() {
			if (la != nil && ra != nil) && ((p.Dialer.LocalAddr().String() == la.String() && p.Dialer.RemoteAddr().String() == ra.String()) ||
				(p.Acceptor.LocalAddr().String() == la.String() && p.Acceptor.RemoteAddr().String() == ra.String())) {
				tags[id] = fmt.Sprintf("peer-sess-%d", p.ID)
			}
		}
	}
	sort.Strings(ids)
	sort.Strings(live)
	return
}

func (w *MuxWorld) livePeers() []*peerSess {
	var out []*peerSess
	for _, p := range w.peers {
		if !p.closed && !p.sess.IsClosed() {
			out = append(out, p)
		}
	}
	return out
}

// invariant: the pool never exceeds its limit (checked at every quiescent point)
func (w *MuxWorld) checkLimit() {
	ids, _, tags := w.proxySessions()
	if w.everReg == nil {
		w.everReg = map[string]bool{}
	}
	for _, t := range tags {
		w.everReg[t] = true
	}
	if len(ids) > w.maxSeen {
		w.maxSeen = len(ids)
	}
	if len(ids) > w.cfg.MuxCount {
		w.violate("C10", "over-limit", "the manager holds %d sessions %v, limit %d", len(ids), ids, w.cfg.MuxCount)
	}
	// sessions that are open at the yamux level on the peer side and whose connection the
	// proxy has not closed: each holds (or is about to hold) one slot
	n := 0
	for _, p := range w.livePeers() {
		other := p.pair.Dialer
		if p.conn == other {
			other = p.pair.Acceptor
		}
		// a connection still waiting in the proxy's accept backlog is not a mux session yet
		if !other.Closed() && !p.pair.Dead() && p.pair.Accepted() {
			n++
		}
	}
	if n > w.cfg.MuxCount {
		w.violate("C10", "over-limit", "%d mux connections are open towards the peer at once, limit %d", n, w.cfg.MuxCount)
	}
}

func (w *MuxWorld) fault(kind string) {
	w.faultsLeft--
	w.faults[kind]++
}

func (w *MuxWorld) markDirty(p *simnet.Pair) {
	if w.dirty == nil {
		w.dirty = map[int]bool{}
	}
	w.dirty[p.ID] = true
}

// allClean reports whether none of the live sessions' connections was ever disturbed below
// the session level: a session over a connection that was black-holed or stalled may be
// registered and open while its transport is still recovering (yamux notices through its
// keep-alive only), so calls through it may legitimately fail for a while.
func (w *MuxWorld) allClean(live []string, tags map[string]string) bool {
	for _, id := range live {
		for _, p := range w.net.Pairs() {
			if tags[id] == fmt.Sprintf("peer-sess-%d", p.ID) && w.dirty[p.ID] {
				return false
			}
		}
	}
	return true
}

func (w *MuxWorld) issueRPC() {
	_, live, _ := w.proxySessions()
	r := &rpcRec{id: len(w.rpcs) + 1, issuedAt: w.s.Now(), liveAt: live}
	w.rpcs = append(w.rpcs, r)
	w.s.Log("rpc #%d issued, live sessions %v", r.id, live)
	w.s.Spawn(fmt.Sprintf("rpc#%d", r.id), func() {
		ctx, cancel := context.WithTimeout(context.Background(), 5*time.Second)
		defer cancel()
		start := time.Now()
		resp, err := w.client.DescribeCluster(ctx, &adminservice.DescribeClusterRequest{})
		simrt.AfterBlock()
		r.tookMs = time.Since(start).Milliseconds()
		r.err = err
		if err == nil {
			r.tag = resp.ClusterName
		}
		r.done = true
	})
}

func (w *MuxWorld) Actions() []simrt.Action {
	w.checkLimit()
	var acts []simrt.Action
	add := func(name string, weight int, fault bool, do func()) {
		acts = append(acts, simrt.Action{Name: name, Weight: weight, Fault: fault, Do: do})
	}
	faultsOK := w.phase == 0 && w.faultsLeft > 0 && !w.shutDown
	if k := w.cfg.Faults - w.faultsLeft; faultsOK && k >= 0 && k < len(w.cfg.FaultAt) && w.s.Stats.Decisions < w.cfg.FaultAt[k] {
		faultsOK = false
	}
	// establisher role: the peer accepts (or mistreats) queued connections
	if w.peerLis != nil && w.peerLis.Pending() > 0 {
		add("peer-accept", 8, false, func() {
			c, err := w.peerLis.Accept()
			if err != nil {
				return
			}
			conn := c.(*simnet.Conn)
			w.addPeerSession(conn, w.pairOf(conn), false)
			if w.prof.Race {
				w.net.SetRefuse(w.peerAddr, true)
			}
		})
		if faultsOK {
			add("FAULT peer-accept-and-close", 2, true, func() {
				w.fault("accept-close")
				if c, err := w.peerLis.Accept(); err == nil {
					_ = c.Close()
				}
			})
			add("FAULT peer-accept-stall-writes", 1, true, func() {
				// the peer accepts but never reads and its window is full: the proxy's writes block
				w.fault("accept-stall-writes")
				if c, err := w.peerLis.Accept(); err == nil {
					pr := w.pairOf(c.(*simnet.Conn))
					pr.StallWrites(pr.Dialer, true)
					w.markDirty(pr)
					w.stalled = append(w.stalled, pr)
					w.addPeerSession(c.(*simnet.Conn), pr, false)
				}
			})
			add("FAULT peer-accept-blackhole", 1, true, func() {
				w.fault("accept-blackhole")
				if c, err := w.peerLis.Accept(); err == nil {
					w.pairOf(c.(*simnet.Conn)).Partition(true)
					w.markDirty(w.pairOf(c.(*simnet.Conn)))
					w.addPeerSession(c.(*simnet.Conn), w.pairOf(c.(*simnet.Conn)), false)
				}
			})
		}
	}
	if w.cfg.Role == "client" && faultsOK {
		if !w.net.Refuse[w.peerAddr] {
			add("FAULT refuse-dials", 1, true, func() { w.fault("refuse-dials"); w.net.SetRefuse(w.peerAddr, true) })
		}
	}
	if w.net.Refuse[w.peerAddr] && !w.noHeal {
		wt := 3
		if w.prof.Race {
			wt = 1
		}
		add("accept-dials-again", wt, false, func() { w.net.SetRefuse(w.peerAddr, false) })
	}
	// receiver role: the peer dials while the proxy can take more
	if w.cfg.Role == "server" && !w.shutDown && w.phase < 2 && !w.noHeal {
		open := 0
		for _, p := range w.net.Pairs() {
			if !p.Dead() && !p.Acceptor.Closed() && !p.Dialer.Closed() {
				open++
			}
		}
		if open < w.cfg.MuxCount+2 {
			add("peer-dial", 6, false, func() {
				c, err := w.net.Dial(w.proxyAddr)
				if err != nil {
					return
				}
				w.addPeerSession(c, w.pairOf(c), true)
			})
			if faultsOK {
				add("FAULT peer-dial-and-stall", 1, true, func() {
					w.fault("dial-stall-writes")
					if c, err := w.net.Dial(w.proxyAddr); err == nil {
						pr := w.pairOf(c)
						pr.StallWrites(pr.Acceptor, true)
						w.markDirty(pr)
						w.stalled = append(w.stalled, pr)
						w.addPeerSession(c, pr, true)
					}
				})
				add("FAULT peer-dial-and-close", 2, true, func() {
					w.fault("dial-close")
					if c, err := w.net.Dial(w.proxyAddr); err == nil {
						_ = c.Close()
					}
				})
			}
		}
	}
	// session level faults
	if faultsOK {
		for _, p := range w.livePeers() {
			p := p
			// faults are biased to land right after a membership change: a session that has just
			// come up is being pinged / registered / announced to the listeners right now
			boost := 1
			if w.s.Stats.Decisions-p.bornAt < 60 {
				boost = 8
				if w.prof.Race {
					boost = 20
				}
			}
			add("FAULT peer-close-session:"+p.tag, 2*boost, true, func() { w.fault("peer-close"); p.closed = true; _ = p.sess.Close() })
			add("FAULT conn-reset:"+p.tag, boost, true, func() { w.fault("conn-reset"); p.pair.Reset() })
			add("FAULT partition:"+p.tag, 1, true, func() { w.fault("partition"); w.markDirty(p.pair); p.pair.Partition(true) })
		}
		ss := mux.VsimSessions(w.mgr)
		for _, id := range mux.VsimSessionIDs(w.mgr) {
			ms := ss[id]
			if !ms.IsClosed() {
				add("FAULT local-close-session:"+id, 1, true, func() { w.fault("local-close"); ms.Close() })
			}
		}
	}
	if w.cfg.Shutdown && !w.shutDown && w.phase == 0 && w.s.Stats.Decisions >= w.shutdownAt {
		add("shutdown", 10, false, func() { w.shutDown = true; w.faults["shutdown"]++; w.cancelAll() })
	}
	if w.prof.RPCs && w.phase == 0 && len(w.rpcs) < 40 {
		inflight := 0
		for _, r := range w.rpcs {
			if !r.done {
				inflight++
			}
		}
		if inflight < 3 {
			add("rpc", 4, false, w.issueRPC)
		}
	}
	return acts
}

func (w *MuxWorld) pairOf(c *simnet.Conn) *simnet.Pair {
	for _, p := range w.net.Pairs() {
		if p.Dialer == c || p.Acceptor == c {
			return p
		}
	}
	return nil
}

func (w *MuxWorld) NextWake() time.Time { return time.Now().Add(time.Second) }

func (w *MuxWorld) Done() bool {
	w.judgeRPCs()
	if w.phase == 0 {
		return w.s.Stats.Decisions >= w.cfg.Budget
	}
	return false
}

// judgeRPCs: an RPC issued while sessions L were live must have ended by its deadline;
// with L non-empty and unchanged until it finished it must succeed, served by a member of L.
// (RPCs whose sessions changed while they were in flight are recorded, not judged.)
func (w *MuxWorld) judgeRPCs() {
	for _, r := range w.rpcs {
		if r.judged {
			continue
		}
		if !r.done {
			ref := r.issuedAt
			if w.fairStart > ref {
				ref = w.fairStart
			}
			// time bounds are judged under the fair schedule only (the chaos scheduler may itself
			// let time pass while the task that would complete the call is ready)
			if w.phase > 0 && w.s.Now()-ref > 8*time.Second {
				r.judged = true
				w.violate("C11", "rpc-hang", "rpc #%d has not returned %v after it was issued with a 5 s deadline", r.id, w.s.Now()-r.issuedAt)
			}
			continue
		}
		r.judged = true
		if r.err == nil {
			w.rpcOK++
			w.served[r.tag]++
		}
	}
}

type muxSettle struct {
	w    *MuxWorld
	done func() bool
	max  time.Duration
	t0   time.Duration
}

func (m muxSettle) Actions() []simrt.Action { return m.w.Actions() }
func (m muxSettle) NextWake() time.Time     { return time.Now().Add(time.Second) }
func (m muxSettle) Done() bool {
	m.w.judgeRPCs()
	return m.done() || m.w.s.Now()-m.t0 >= m.max
}

func (w *MuxWorld) settle(max time.Duration, done func() bool) {
	w.s.ExtendBudget(400000, max+time.Minute)
	w.s.Run(muxSettle{w: w, done: done, max: max, t0: w.s.Now()})
}

// quiescentRPC issues one RPC and waits for it (fair phase): the verdict is fully determined
// by the registered live set, which does not change meanwhile.
func (w *MuxWorld) quiescentRPC() *rpcRec {
	w.issueRPC()
	r := w.rpcs[len(w.rpcs)-1]
	w.settle(10*time.Second, func() bool { return r.done })
	return r
}

// RunMux executes one MUX run.
func RunMux(s *simrt.Sim, prof MuxProfile) *Result {
	w, err := NewMuxWorld(s, prof)
	res := &Result{World: "MUX", Profile: prof.Name}
	if err != nil {
		res.ToolError = "setup: " + err.Error()
		return res
	}
	res.Config = w.cfg
	finish := func() *Result {
		res.Faults = w.faults
		res.Crash = s.Crashed()
		if res.Crash != nil {
			w.violate("C10", "crash", "unrecovered panic in %s: %s", res.Crash.Task, res.Crash.Value)
		}
		if w.tls != nil {
			w.tls.judge(w)
		}
		res.Violations = w.viol
		nf := 0
		for _, v := range w.faults {
			nf += v
		}
		res.Nontrivial = w.maxSeen > 0 && (prof.RPCs && w.rpcOK > 0 || !prof.RPCs && nf > 0)
		if prof.Race {
			res.Nontrivial = w.maxSeen > 0 && nf > 0
		}
		if prof.TLS {
			res.Nontrivial = len(w.tls.cases) > 0
			res.Config = map[string]any{"mux": w.cfg, "tls_verify": w.tls.verify, "cases": w.tls.cases}
		}
		res.Notes = map[string]string{"max_sessions": fmt.Sprint(w.maxSeen), "rpcs_ok": fmt.Sprint(w.rpcOK), "served": fmt.Sprint(w.served)}
		return res
	}
	s.Run(w) // chaos
	if s.Crashed() != nil {
		return finish()
	}
	w.phase = 1
	w.fairStart = s.Now()
	s.SetFair(true)
	// first let every pending session-list update be applied while nothing new is established,
	// then compare what the client connection may dial with what is registered (C11)
	if !w.shutDown {
		w.noHeal = true
		w.net.SetRefuse(w.peerAddr, true)
		w.settle(12*time.Second, func() bool { return false })
		w.checkEndpoints("after the churn, before healing")
		w.noHeal = false
	}
	// heal: faults stop, the peer is reachable and accepts
	w.net.SetRefuse(w.peerAddr, false)
	for _, p := range w.net.Pairs() {
		p.Partition(false)
	}
	for _, p := range w.stalled {
		p.StallWrites(p.Dialer, false)
		p.StallWrites(p.Acceptor, false)
	}
	if !w.shutDown {
		full := func() bool {
			ids, live, _ := w.proxySessions()
			return len(ids) == w.cfg.MuxCount && len(live) == w.cfg.MuxCount
		}
		w.settle(3*time.Minute, full)
		ids, live, tags := w.proxySessions()
		if len(ids) != w.cfg.MuxCount || len(live) != w.cfg.MuxCount {
			w.violate("C10", "not-healed", "3 virtual minutes after the last fault, with the peer reachable, the pool holds %d sessions (%d open) instead of %d; live tasks: %v", len(ids), len(live), w.cfg.MuxCount, s.LiveTasks())
		} else {
			w.checkAvail()
		}
		if prof.RPCs {
			w.rpcPhase(tags)
		}
	}
	// shutdown
	if !w.shutDown {
		w.shutDown = true
		w.cancelAll()
	}
	w.phase = 2
	w.settle(time.Minute, func() bool { return w.mgr.IsClosed() && w.allClosed() == "" })
	if !w.mgr.IsClosed() {
		w.violate("C10", "shutdown-stuck", "1 virtual minute after the lifetime was cancelled the manager has not finished shutting down; live tasks: %v", s.LiveTasks())
	}
	if msg := w.allClosed(); msg != "" {
		w.violate("C10", "leaked-connection", "after shutdown: %s", msg)
	}
	for _, ms := range mux.VsimSessions(w.mgr) {
		if !ms.IsClosed() {
			w.violate("C10", "leaked-session", "a managed session is still open after shutdown")
		}
	}
	// stop the peer's servers so that their goroutines end
	for _, p := range w.peers {
		p.srv.Stop()
		_ = p.sess.Close()
	}
	w.settle(2*time.Second, func() bool { return false })
	return finish()
}

// checkEndpoints: once every session-list update has been applied, the endpoints the client
// connection may dial are exactly the registered sessions, and CanMakeCalls agrees.
func (w *MuxWorld) checkEndpoints(when string) {
	ids, _, _ := w.proxySessions()
	eps := grpcutil.VsimEndpoints(w.mcc)
	if fmt.Sprint(ids) != fmt.Sprint(eps) {
		w.violate("C11", "stale-endpoints", "%s: registered sessions %v but the client connection may dial %v", when, ids, eps)
	}
	// CanMakeCalls is read by a task of its own; a session may end between the harness's look at
	// the session table and that task's turn, so the verdict is only taken when the table was
	// the same before and after (three attempts)
	for attempt := 0; attempt < 3; attempt++ {
		before, _, _ := w.proxySessions()
		var canCall, ran bool
		w.s.Spawn("inspect-cancall", func() { canCall = w.mcc.CanMakeCalls(); ran = true })
		w.settle(5*time.Second, func() bool { return ran })
		after, _, _ := w.proxySessions()
		if !ran || fmt.Sprint(before) != fmt.Sprint(after) {
			w.settle(2*time.Second, func() bool { return false })
			continue
		}
		if canCall != (len(after) > 0) {
			w.violate("C11", "can-make-calls", "%s: CanMakeCalls()=%v with registered sessions %v", when, canCall, after)
		}
		return
	}
}

// checkAvail runs CanAcceptConnections in a task (it takes the semaphore).
func (w *MuxWorld) checkAvail() {
	var avail, ran bool
	w.s.Spawn("inspect-avail", func() { avail = w.mgr.CanAcceptConnections(); ran = true })
	w.settle(5*time.Second, func() bool { return ran })
	if ran && avail {
		w.violate("C10", "permit-accounting", "the pool is full (%d sessions) but CanAcceptConnections() is true", w.cfg.MuxCount)
	}
}

// allClosed: the harness-side end of every connection ever created has observed closure.
func (w *MuxWorld) allClosed() string {
	var open []string
	for _, p := range w.net.Pairs() {
		// the proxy's end is the dialer in the establisher role and the acceptor in the receiver role
		proxyEnd, peerEnd := p.Dialer, p.Acceptor
		if w.cfg.Role == "server" {
			proxyEnd, peerEnd = p.Acceptor, p.Dialer
		}
		if !proxyEnd.Closed() && !peerEnd.Closed() && !p.Dead() {
			open = append(open, fmt.Sprintf("connection %d (%s) is still open on the proxy side", p.ID, p.ListenAt))
		}
	}
	return strings.Join(open, "; ")
}

// rpcPhase: C11 at quiescent points of a fair schedule.
func (w *MuxWorld) rpcPhase(tags map[string]string) {
	inSet := func(tag string, live []string, tg map[string]string) bool {
		for _, id := range live {
			if tg[id] == tag {
				return true
			}
		}
		return false
	}
	// 1. full pool: every call succeeds on a live session, and the calls spread over the set
	for i := 0; i < 4*w.cfg.MuxCount; i++ {
		_, live, tg := w.proxySessions()
		r := w.quiescentRPC()
		if !r.done {
			continue
		}
		if r.err != nil {
			if w.allClean(live, tg) {
				w.violate("C11", "rpc-failed-with-live-sessions", "rpc #%d failed (%v) although sessions %v were registered and open", r.id, r.err, live)
			}
		} else if !inSet(r.tag, live, tg) {
			w.violate("C11", "served-by-unregistered-session", "rpc #%d was served by %s, which is not among the registered live sessions %v (%v)", r.id, r.tag, live, tg)
		}
	}
	if _, liveNow, tgNow := w.proxySessions(); w.cfg.MuxCount > 1 && w.allClean(liveNow, tgNow) {
		distinct := map[string]bool{}
		for _, r := range w.rpcs[len(w.rpcs)-4*w.cfg.MuxCount:] {
			if r.err == nil {
				distinct[r.tag] = true
			}
		}
		if len(distinct) < 2 {
			w.violate("C11", "no-spread", "%d calls over a pool of %d live sessions were all served by %v", 4*w.cfg.MuxCount, w.cfg.MuxCount, distinct)
		}
	}
	// 2. kill sessions one by one: calls fail over to the survivors
	w.net.SetRefuse(w.peerAddr, true) // keep the pool from healing while we look at the shrinking set
	w.noHeal = true
	for guard := 0; guard < 3*w.cfg.MuxCount+3; guard++ {
		_, live, _ := w.proxySessions()
		if len(live) == 0 {
			break
		}
		// close one live session from the peer side
		var victim *peerSess
		_, _, tg := w.proxySessions()
		for _, p := range w.livePeers() {
			if inSet(p.tag, live, tg) {
				victim = p
				break
			}
		}
		if victim == nil {
			break
		}
		victim.closed = true
		_ = victim.sess.Close()
		before := len(live)
		w.settle(30*time.Second, func() bool { _, l, _ := w.proxySessions(); return len(l) < before })
		w.settle(2*time.Second, func() bool { return false }) // let gRPC digest the update
		_, live2, tg2 := w.proxySessions()
		var canCall, ran bool
		w.s.Spawn("inspect-cancall", func() { canCall = w.mcc.CanMakeCalls(); ran = true })
		w.settle(5*time.Second, func() bool { return ran })
		if ran && canCall != (len(live2) > 0) {
			w.violate("C11", "can-make-calls", "CanMakeCalls()=%v with registered live sessions %v", canCall, live2)
		}
		r := w.quiescentRPC()
		if !r.done {
			continue
		}
		if len(live2) > 0 {
			if r.err != nil && !w.allClean(live2, tg2) {
				// a survivor over a disturbed connection may still be recovering
			} else if r.err != nil {
				w.violate("C11", "no-failover", "after session %s died, rpc #%d failed (%v) although sessions %v survive", victim.tag, r.id, r.err, live2)
			} else if !inSet(r.tag, live2, tg2) {
				w.violate("C11", "served-by-dead-session", "rpc #%d was served by %s, not among the surviving sessions %v", r.id, r.tag, live2)
			}
		} else {
			if r.err == nil {
				w.violate("C11", "served-with-no-session", "rpc #%d succeeded (served by %s) although no session is registered", r.id, r.tag)
			} else if status.Code(r.err) != codes.Unavailable && status.Code(r.err) != codes.DeadlineExceeded {
				w.violate("C11", "wrong-error", "with no session left rpc #%d failed with %v, expected unavailability", r.id, r.err)
			}
		}
	}
	// 3. a new session appears: calls resume
	w.net.SetRefuse(w.peerAddr, false)
	w.noHeal = false
	w.settle(3*time.Minute, func() bool { _, l, _ := w.proxySessions(); return len(l) > 0 })
	w.settle(2*time.Second, func() bool { return false })
	_, live3, tg3 := w.proxySessions()
	if len(live3) == 0 {
		w.violate("C10", "not-healed", "no session came back within 3 virtual minutes after the peer became reachable again")
		return
	}
	r := w.quiescentRPC()
	if r.done {
		if r.err != nil && !w.allClean(live3, tg3) {
			// recovering transport
		} else if r.err != nil {
			w.violate("C11", "no-resume", "a new session %v appeared but rpc #%d still fails: %v", live3, r.id, r.err)
		} else if !inSet(r.tag, live3, tg3) {
			_, live4, tg4 := w.proxySessions()
			if !inSet(r.tag, live4, tg4) {
				w.violate("C11", "served-by-unregistered-session", "rpc #%d was served by %s, not among the registered live sessions %v", r.id, r.tag, live4)
			}
		}
	}
	// 4. idleness (one run in four; the draw is the last one of the run, so older tapes replay
	// unchanged): no call is made for longer than gRPC's channel idle timeout (30 minutes by
	// default, which MultiClientConn does not change). The channel drops its resolver and
	// balancer and rebuilds them at the next call: the registered live sessions must still be
	// dialable then, whatever happened to the session list during the silence.
	if w.s.Draw(4) != 1 {
		return
	}
	w.faults["idle-31min-without-calls"]++
	w.settle(31*time.Minute, func() bool { return false })
	w.settle(2*time.Second, func() bool { return false })
	_, live5, tg5 := w.proxySessions()
	if len(live5) == 0 {
		return
	}
	r = w.quiescentRPC()
	if r.done {
		if r.err != nil && !w.allClean(live5, tg5) {
			// recovering transport
		} else if r.err != nil {
			w.violate("C11", "no-call-after-idle", "after 31 virtual minutes without calls rpc #%d fails (%v) although sessions %v are registered and open", r.id, r.err, live5)
		} else if !inSet(r.tag, live5, tg5) {
			_, live6, tg6 := w.proxySessions()
			if !inSet(r.tag, live6, tg6) {
				w.violate("C11", "served-by-unregistered-session", "after idleness rpc #%d was served by %s, not among the registered live sessions %v", r.id, r.tag, live6)
			}
		}
	}
}
