package worlds

import (
	"context"
	"fmt"
	"os"
	"sort"
	"strconv"
	"strings"
	"time"

	"go.temporal.io/server/api/adminservice/v1"
	replicationv1 "go.temporal.io/server/api/replication/v1"
	"go.temporal.io/server/common/channel"
	"google.golang.org/grpc/codes"
	"google.golang.org/grpc/metadata"
	"google.golang.org/grpc/status"

	"github.com/temporalio/s2s-proxy/config"
	"github.com/temporalio/s2s-proxy/encryption"
	"github.com/temporalio/s2s-proxy/proxy"

	"vsim/fakeml"
	"vsim/seam"
	"vsim/simio"
	"vsim/simrt"
)

// ---------------------------------------------------------------------------
// GOSSIP world: 2-3 proxy instances sharing a (fake) memberlist cluster. Real:
// shardManagerImpl incl. its memberlist delegates, intraProxyManager and its reconcile
// loop, intraProxyStreamSender/Receiver, the routing-mode stream handler that serves
// intra-proxy streams. Stub: memberlist (vsim/fakeml), the intra-proxy gRPC link
// (vsim/simio streams terminating in the peer instance's real handler), and the local
// cluster streams (the harness registers delivery/ack channels and shard ownership through
// the ShardManager interface exactly as proxyStreamSender/Receiver do).
// ---------------------------------------------------------------------------

type GossipConfig struct {
	N       int
	Shards  int // shards per cluster
	PKeep   int
	Budget  int
	Leaves  bool
	Rejoin  bool // an instance that left may be started again under its name (a new process)
	DupProb int
}

type gClaim struct {
	shard  ShardID
	msgCh  chan proxy.RoutedMessage
	ackCh  chan proxy.RoutedAck
	regAt  time.Time
	at     time.Duration
	active bool
	ready  bool // registration calls have returned
}

type gInst struct {
	idx      int
	gen      int // 0, or 1 for the process started again under the name of one that left
	name     string
	addr     string
	sm       proxy.ShardManager
	server   adminservice.AdminServiceServer
	lifetime context.Context
	cancel   context.CancelFunc
	started  bool
	startOK  bool // ShardManager.Start has returned (ClusterConnection.Start calls it before any server accepts streams)
	left     bool
	claims   map[ShardID]*gClaim
	history  map[ShardID][]*gClaim
	gotMsgs  map[string][]string // shard -> markers seen on the local delivery channel
	gotAcks  map[string][]int64
}

type gProbe struct {
	id        int
	kind      string // "msg" or "ack"
	from      string
	shard     ShardID // addressed shard
	other     ShardID
	expLocal  bool
	expOwner  string // remote owner named by the sender's table ("" = none)
	linkThere bool
	done      bool
	result    bool
	seenAt    []string
	stable    bool
	chaos     bool // issued during the chaos phase (ownership in flux): only the "never claimed delivered without having been handed to anything" clause applies
}

type GossipWorld struct {
	s           *simrt.Sim
	cfg         GossipConfig
	net         *fakeml.Network
	inst        []*gInst
	past        []*gInst // incarnations that left and were replaced by a new process of the same name
	addrs       map[string]string
	scc         config.ShardCountConfig
	phase       int
	viol        []Violation
	faults      map[string]int
	probes      []*gProbe
	lastClaim   map[ShardID]time.Duration
	pending     int // harness tasks in flight
	nextSt      int
	pp          int
	ppDone      map[string]int
	delivered   int
	claimsN     int
	accepted    map[string]bool // "<kind>/<marker>" of everything an intra-proxy stream has accepted
	chaosProbes int
}

func (w *GossipWorld) violate(prop, clause, format string, args ...any) {
	w.violateSig(prop, clause, "", format, args...)
}

func (w *GossipWorld) violateSig(prop, clause, sig, format string, args ...any) {
	v := Violation{Property: prop, Clause: clause, Sig: sig, Detail: fmt.Sprintf(format, args...), Decision: w.s.Stats.Decisions, VTimeMs: w.s.Now().Milliseconds()}
	w.s.Log("VIOLATION %s/%s: %s", prop, clause, v.Detail)
	if len(w.viol) < 20 {
		w.viol = append(w.viol, v)
	}
}

func NewGossipWorld(s *simrt.Sim) *GossipWorld {
	w := &GossipWorld{s: s, faults: map[string]int{}, lastClaim: map[ShardID]time.Duration{}, ppDone: map[string]int{}, accepted: map[string]bool{}}
	c := GossipConfig{}
	c.N = 2 + s.Draw(2)
	c.Shards = 1 + s.Draw(2)
	c.PKeep = []int{90, 70, 50}[s.Draw(3)]
	c.Budget = []int{700, 350, 1400}[s.Draw(3)]
	c.Leaves = s.Draw(3) == 2
	c.DupProb = []int{0, 10, 30}[s.Draw(3)]
	c.Rejoin = c.Leaves && s.Draw(2) == 1
	w.cfg = c
	s.SetPKeep(c.PKeep)
	w.net = fakeml.NewNetwork()
	w.net.Spawn = func(name string, f func()) { s.Spawn(name, f) }
	if os.Getenv("VSIM_PROXYLOG") != "" {
		w.net.Logf = func(format string, args ...any) { s.Log(format, args...) }
	}
	fakeml.Use(w.net)
	seam.Reset()
	addrs := map[string]string{}
	for i := 0; i < c.N; i++ {
		addrs[fmt.Sprintf("n%d", i+1)] = fmt.Sprintf("proxy-n%d:7000", i+1)
	}
	w.addrs = addrs
	w.scc = config.ShardCountConfig{Mode: config.ShardCountRouting, LocalShardCount: int32(c.Shards), RemoteShardCount: int32(c.Shards)}
	for i := 0; i < c.N; i++ {
		w.inst = append(w.inst, w.newInst(i, 0))
	}
	// intra-proxy link: a stream opened towards a peer's proxy address terminates in that peer's real handler
	seam.IntraClientFactory = func(target string) adminservice.AdminServiceClient {
		return &adminClient{name: "intra->" + target, open: func(ctx context.Context) (adminservice.AdminService_StreamWorkflowReplicationMessagesClient, error) {
			var peer *gInst
			for _, in := range w.inst {
				if in.addr == target {
					peer = in
				}
			}
			if peer == nil || peer.left || !peer.started {
				return nil, status.Error(codes.Unavailable, "peer unreachable")
			}
			w.nextSt++
			st := simio.NewStream(fmt.Sprintf("intra%d->%s", w.nextSt, peer.name), w.nextSt, ctx, 0)
			omd, _ := metadata.FromOutgoingContext(ctx)
			s.Log("intra stream %s opened: %s", st.Name, mdSummary(omd))
			// what an intra-proxy stream has accepted, by probe marker (messages travel from the
			// stream's server side, acknowledgements from its client side)
			st.OnS2C = func(m *simio.Res) {
				if msgs := m.GetMessages(); msgs != nil {
					w.accepted[fmt.Sprintf("msg/%d", msgs.ExclusiveHighWatermark)] = true
				}
			}
			st.OnC2S = func(r *simio.Req) {
				if ss := r.GetSyncReplicationState(); ss != nil {
					w.accepted[fmt.Sprintf("ack/%d", ss.InclusiveLowWatermark)] = true
				}
			}
			s.Spawn("intra-handler:"+st.Name, func() {
				err := peer.server.StreamWorkflowReplicationMessages(simio.ServerEnd{S: st})
				s.Log("intra stream %s: handler returned %v", st.Name, err)
				st.ServerFinish(err)
			})
			return simio.ClientEnd{S: st}, nil
		}}
	}
	return w
}

// newInst builds (does not start) instance number i; gen 1 is the process started again under
// the name and addresses of one that has left - nothing is carried over.
func (w *GossipWorld) newInst(i, gen int) *gInst {
	c, addrs, scc := w.cfg, w.addrs, w.scc
	in := &gInst{idx: i, gen: gen, name: fmt.Sprintf("n%d", i+1), claims: map[ShardID]*gClaim{}, history: map[ShardID][]*gClaim{}, gotMsgs: map[string][]string{}, gotAcks: map[string][]int64{}}
	in.addr = addrs[in.name]
	mc := &config.MemberlistConfig{Enabled: true, NodeName: in.name, BindAddr: fmt.Sprintf("10.0.0.%d", i+1), BindPort: 7946, ProxyAddresses: addrs}
	if gen > 0 {
		// a process that comes back is pointed at the whole deployment (its old seed may be gone)
		for j := 0; j < c.N; j++ {
			if j != i {
				mc.JoinAddrs = append(mc.JoinAddrs, fmt.Sprintf("10.0.0.%d:7946", j+1))
			}
		}
	} else if i > 0 {
		mc.JoinAddrs = []string{"10.0.0.1:7946"}
	}
	in.lifetime, in.cancel = context.WithCancel(context.Background())
	in.sm = proxy.NewShardManager(mc, scc, encryption.TLSConfig{}, noopLoggers{})
	none := &adminClient{name: "none", open: func(ctx context.Context) (adminservice.AdminService_StreamWorkflowReplicationMessagesClient, error) {
		return nil, status.Error(codes.Unavailable, "no cluster in this world")
	}}
	obs := proxy.NewReplicationStreamObserver(noopLoggers{}.Get(""))
	in.server = proxy.NewAdminServiceProxyServer("outboundAdminService", none, none, proxy.AdminServiceOverrides{}, []string{"outbound"},
		obs.ReportStreamValue, scc, proxy.LCMParameters{},
		proxy.RoutingParameters{OverrideShardCount: scc.LocalShardCount, RoutingLocalShardCount: scc.RemoteShardCount, DirectionLabel: "outbound"},
		noopLoggers{}, in.sm, in.lifetime)
	return in
}

// all: the current instances and the replaced incarnations.
func (w *GossipWorld) all() []*gInst {
	return append(append([]*gInst{}, w.inst...), w.past...)
}

func (w *GossipWorld) task(name string, f func()) {
	w.pending++
	w.s.Spawn(name, func() {
		defer func() { w.pending-- }()
		f()
	})
}

func (w *GossipWorld) shards() []ShardID {
	var out []ShardID
	for cl := int32(1); cl <= 2; cl++ {
		for i := 1; i <= w.cfg.Shards; i++ {
			out = append(out, sid(cl, int32(i)))
		}
	}
	return out
}

func (w *GossipWorld) claim(in *gInst, sh ShardID) {
	cl := &gClaim{shard: sh, msgCh: make(chan proxy.RoutedMessage, 100), ackCh: make(chan proxy.RoutedAck, 100), at: w.s.Now(), active: true}
	in.claims[sh] = cl
	in.history[sh] = append(in.history[sh], cl)
	w.lastClaim[sh] = w.s.Now()
	w.claimsN++
	w.s.Log("claim %s by %s", sidStr(sh), in.name)
	w.task("claim:"+in.name+":"+sidStr(sh), func() {
		in.sm.SetRemoteSendChan(sh, cl.msgCh)
		in.sm.SetLocalAckChan(sh, cl.ackCh)
		cl.regAt = in.sm.RegisterShard(sh)
		cl.ready = true
		w.lastClaim[sh] = w.s.Now()
	})
}

func (w *GossipWorld) release(in *gInst, cl *gClaim) {
	cl.active = false
	w.s.Log("release %s by %s", sidStr(cl.shard), in.name)
	w.task("release:"+in.name+":"+sidStr(cl.shard), func() {
		in.sm.RemoveRemoteSendChan(cl.shard, cl.msgCh)
		in.sm.RemoveLocalAckChan(cl.shard, cl.ackCh)
		in.sm.UnregisterShard(cl.shard, cl.regAt)
	})
}

func probeMarker(id int) int64 { return int64(1000000 + id) }

func (w *GossipWorld) drain() {
	for _, in := range w.all() {
		for _, sh := range w.shards() {
			for _, cl := range in.history[sh] { // every claim's channels, also those of released claims
				for {
					select {
					case m := <-cl.msgCh:
						if msgs := m.Resp.GetMessages(); msgs != nil {
							mk := strconv.FormatInt(msgs.ExclusiveHighWatermark, 10)
							in.gotMsgs[sidStr(sh)] = append(in.gotMsgs[sidStr(sh)], mk)
							w.noteSeen("msg", msgs.ExclusiveHighWatermark, in.name+"/"+sidStr(sh))
						}
						continue
					case a := <-cl.ackCh:
						if st := a.Req.GetSyncReplicationState(); st != nil {
							in.gotAcks[sidStr(sh)] = append(in.gotAcks[sidStr(sh)], st.InclusiveLowWatermark)
							w.noteSeen("ack", st.InclusiveLowWatermark, in.name+"/"+sidStr(sh))
						}
						continue
					default:
					}
					break
				}
			}
		}
	}
}

func (w *GossipWorld) noteSeen(kind string, marker int64, where string) {
	for _, p := range w.probes {
		if p.kind == kind && probeMarker(p.id) == marker {
			p.seenAt = append(p.seenAt, where)
			w.delivered++
			if len(p.seenAt) > 1 {
				w.violate("C09", "delivered-twice", "%s probe #%d addressed to %s from %s was delivered %d times: %v", kind, p.id, sidStr(p.shard), p.from, len(p.seenAt), p.seenAt)
			}
			return
		}
	}
}

// probe issues one delivery call on instance `in` and records what its tables promised.
func (w *GossipWorld) probe(in *gInst, kind string, shard, other ShardID) {
	p := &gProbe{id: len(w.probes) + 1, kind: kind, from: in.name, shard: shard, other: other, chaos: w.phase == 0}
	w.probes = append(w.probes, p)
	w.task(fmt.Sprintf("probe%d:%s:%s", p.id, kind, in.name), func() {
		// what do this instance's own tables say right now?
		if cl := in.claims[shard]; cl != nil && cl.active && cl.ready {
			p.expLocal = true
		}
		remote, _ := in.sm.GetRemoteShardsForPeer("")
		var owners []string
		for node, st := range remote {
			for _, si := range st.Shards {
				if si.ID == shard {
					owners = append(owners, node)
				}
			}
		}
		sort.Strings(owners)
		if len(owners) > 0 {
			p.expOwner = strings.Join(owners, ",")
		}
		sc := channel.NewShutdownOnce()
		mk := probeMarker(p.id)
		w.s.Log("probe #%d %s from %s to %s (other %s): local=%v owners=%v", p.id, kind, in.name, sidStr(shard), sidStr(other), p.expLocal, owners)
		if kind == "msg" {
			msgs := &replicationv1.WorkflowReplicationMessages{ExclusiveHighWatermark: mk}
			if p.chaos {
				// a task-bearing message: a watermark-only one is, by design, replayed to a shard
				// that registers again (pending-watermark replay), which is not a duplicate delivery
				msgs.ReplicationTasks = []*replicationv1.ReplicationTask{{SourceTaskId: mk - 1}}
			}
			msg := &proxy.RoutedMessage{SourceShard: other, Resp: &adminservice.StreamWorkflowReplicationMessagesResponse{
				Attributes: &adminservice.StreamWorkflowReplicationMessagesResponse_Messages{Messages: msgs}}}
			p.result = in.sm.DeliverMessagesToShardOwner(shard, msg, sc, noopLoggers{}.Get(""))
		} else {
			ra := &proxy.RoutedAck{TargetShard: other, Req: &adminservice.StreamWorkflowReplicationMessagesRequest{
				Attributes: &adminservice.StreamWorkflowReplicationMessagesRequest_SyncReplicationState{
					SyncReplicationState: &replicationv1.SyncReplicationState{InclusiveLowWatermark: mk}}}}
			p.result = in.sm.DeliverAckToShardOwner(shard, ra, sc, noopLoggers{}.Get(""), mk, true)
		}
		p.done = true
		w.s.Log("probe #%d returned %v", p.id, p.result)
	})
}

func (w *GossipWorld) liveInst() []*gInst {
	var out []*gInst
	for _, in := range w.inst {
		if in.started && !in.left {
			out = append(out, in)
		}
	}
	return out
}

func (w *GossipWorld) Actions() []simrt.Action {
	w.drain()
	var acts []simrt.Action
	add := func(name string, weight int, fault bool, do func()) {
		acts = append(acts, simrt.Action{Name: name, Weight: weight, Fault: fault, Do: do})
	}
	now := w.s.Now()
	// start instances
	for _, in := range w.inst {
		in := in
		if !in.started {
			nm := "start:" + in.name
			if in.gen > 0 {
				nm = fmt.Sprintf("start:%s.r%d", in.name, in.gen)
			}
			add(nm, 8, false, func() {
				in.started = true
				w.task(nm, func() { _ = in.sm.Start(in.lifetime); in.startOK = true })
			})
		}
	}
	// gossip deliveries
	for _, p := range w.net.PendingSteps() {
		p := p
		add(fmt.Sprintf("ml-deliver:%s->%s#%d", p.Kind, p.To, p.Seq), 6, false, func() { w.net.Deliver(p.Seq, false) })
		if w.phase == 0 && w.cfg.DupProb > 0 && p.Kind == "msg" {
			add(fmt.Sprintf("FAULT ml-dup:%s->%s#%d", p.Kind, p.To, p.Seq), 1, true, func() {
				w.faults["dup"]++
				w.net.Deliver(p.Seq, true)
			})
		}
	}
	live := w.liveInst()
	// the cluster is formed once every instance has started and every live instance has every
	// other one in its membership view; claims are only made in a formed cluster (the
	// property speaks about instances that know each other)
	formed := len(live) >= 2
	for _, in := range w.inst {
		if !in.started || (!in.startOK && !in.left) {
			formed = false
		}
	}
	for _, a := range live {
		for _, b := range live {
			if a != b && !w.net.Knows(a.name, b.name) {
				formed = false
			}
		}
	}
	if w.phase == 0 {
		for i := 0; i < len(live); i++ {
			for j := i + 1; j < len(live); j++ {
				a, b := live[i], live[j]
				if w.net.Knows(a.name, b.name) && w.net.Knows(b.name, a.name) {
					add("pushpull:"+a.name+"-"+b.name, 2, false, func() { w.net.PushPull(a.name, b.name) })
				}
			}
		}
		for _, in := range live {
			in := in
			for _, sh := range w.shards() {
				sh := sh
				cl := in.claims[sh]
				if !formed {
					continue
				}
				if cl == nil || (!cl.active && cl.ready) {
					// real clocks never tie: a claim of a shard starts at least 1 ms after the
					// previous claim of that shard (on any instance) has completely returned, so
					// "newest" is unambiguous both by registration and by announcement timestamp
					busy := false
					for _, o := range w.all() {
						if oc := o.claims[sh]; oc != nil && !oc.ready && !o.left {
							busy = true
						}
					}
					if lc, ok := w.lastClaim[sh]; !busy && (!ok || now-lc >= time.Millisecond) {
						add("claim:"+in.name+":"+sidStr(sh), 2, false, func() { w.claim(in, sh) })
					}
				} else if cl.active && cl.ready {
					add("release:"+in.name+":"+sidStr(sh), 1, false, func() { w.release(in, cl) })
				}
			}
			if formed && w.chaosProbes < 12 {
				// a delivery call while ownership is in flux (claims moving, instances leaving)
				add("probe-chaos:"+in.name, 1, false, func() {
					w.chaosProbes++
					shs := w.shards()
					sh := shs[w.s.Draw(len(shs))]
					other := sid(3-sh.ClusterID, int32(1+w.s.Draw(w.cfg.Shards)))
					kind := []string{"msg", "ack"}[w.s.Draw(2)]
					w.probe(in, kind, sh, other)
				})
			}
			if w.cfg.Leaves && len(live) > 1 {
				add("FAULT leave:"+in.name, 1, true, func() {
					w.faults["leave"]++
					in.left = true
					for _, cl := range in.claims {
						cl.active = false
					}
					in.cancel()
				})
			}
		}
	}
	// an instance that left and has shut its memberlist down is started again: same name, same
	// addresses, a new process (empty tables, no shard)
	if w.phase == 0 && w.cfg.Rejoin {
		for i, in := range w.inst {
			i, in := i, in
			if in.left && in.gen == 0 && w.net.IsShutdown(in.name) {
				add("rejoin:"+in.name, 3, false, func() {
					w.faults["rejoin"]++
					w.s.Log("instance %s is started again", in.name)
					w.past = append(w.past, in)
					w.inst[i] = w.newInst(i, 1)
				})
			}
		}
	}
	return acts
}

func (w *GossipWorld) NextWake() time.Time { return time.Time{} }

func (w *GossipWorld) Done() bool {
	switch w.phase {
	case 0:
		return w.s.Stats.Decisions >= w.cfg.Budget
	default:
		return false
	}
}

// settle runs the fair scheduler until every gossip step has been delivered, every harness
// task has finished, and `extra` virtual time has passed (reconcile timers).
type settleWorld struct {
	w     *GossipWorld
	until time.Duration
}

func (sw settleWorld) Actions() []simrt.Action { return sw.w.Actions() }
func (sw settleWorld) NextWake() time.Time     { return time.Now().Add(500 * time.Millisecond) }
func (sw settleWorld) Done() bool {
	sw.w.drain()
	return sw.w.pending == 0 && len(sw.w.net.PendingSteps()) == 0 && sw.w.s.Now() >= sw.until
}

func (w *GossipWorld) settle(extra time.Duration) {
	w.s.ExtendBudget(300000, extra+60*time.Second)
	w.s.Run(settleWorld{w: w, until: w.s.Now() + extra})
}

// RunGossip executes one GOSSIP run.
func RunGossip(s *simrt.Sim) *Result {
	w := NewGossipWorld(s)
	res := &Result{World: "GOSSIP", Profile: "C09", Config: w.cfg}
	finish := func() *Result {
		res.Faults = w.faults
		res.Crash = s.Crashed()
		if res.Crash != nil {
			w.violate("C09", "crash", "unrecovered panic in %s: %s", res.Crash.Task, res.Crash.Value)
		}
		res.Violations = w.viol
		res.Nontrivial = w.claimsN > 0 && len(w.probes) > 0
		return res
	}
	s.Run(w) // chaos: claims, releases, gossip in any order, leaves
	if s.Crashed() != nil {
		return finish()
	}
	// closing phase: no new claims; every announcement is delivered, then all-pairs state
	// merges (twice, so that evictions caused by the first round are visible in the second)
	w.phase = 1
	s.SetFair(true)
	w.settle(2 * time.Second)
	for round := 0; round < 2; round++ {
		live := w.liveInst()
		for i := 0; i < len(live); i++ {
			for j := i + 1; j < len(live); j++ {
				w.net.PushPull(live[i].name, live[j].name)
			}
		}
		w.settle(2 * time.Second)
	}
	if s.Crashed() != nil {
		return finish()
	}
	w.checkConvergence()
	w.routingProbes()
	// shut everything down
	for _, in := range w.inst {
		in.cancel()
	}
	w.settle(time.Second)
	return finish()
}

// checkConvergence: a shard claimed by several instances is owned only by the instance
// with the newest claim; every other live instance names exactly that owner; instances
// that left own nothing anywhere.
func (w *GossipWorld) checkConvergence() {
	done := false
	var views map[string]map[string]ShardID
	var remotes map[string]map[string][]string
	w.task("inspect", func() {
		views = map[string]map[string]ShardID{}
		remotes = map[string]map[string][]string{}
		for _, in := range w.liveInst() {
			views[in.name] = in.sm.GetLocalShards()
			rs, _ := in.sm.GetRemoteShardsForPeer("")
			remotes[in.name] = map[string][]string{}
			for node, st := range rs {
				for _, si := range st.Shards {
					k := sidStr(si.ID)
					remotes[in.name][k] = append(remotes[in.name][k], node)
				}
			}
		}
		done = true
	})
	w.settle(0)
	if !done {
		w.violate("C09", "inspect-stuck", "table inspection did not complete; live tasks %v", w.s.LiveTasks())
		return
	}
	for _, sh := range w.shards() {
		k := sidStr(sh)
		// The latest claim of the shard (by registration time) supersedes every earlier one: the
		// cluster's stream moved there. Among the instances that are still members, the latest
		// claim - if still active - must be the sole owner, otherwise nobody owns the shard.
		// A claim by an instance that has meanwhile left may or may not have been announced before
		// it went (the announcement is sent asynchronously), so when such a claim is newer than
		// the newest live one, both outcomes are accepted: the live claimant kept the shard, or
		// it was evicted and nobody owns it.
		var newest *gInst
		var newestCl *gClaim
		var newestAt time.Duration = -1
		var departedAt time.Duration = -1
		nClaim := 0
		for _, in := range w.all() {
			for _, cl := range in.history[sh] {
				if !cl.ready {
					continue
				}
				nClaim++
				at := time.Duration(cl.regAt.UnixNano())
				if in.left || !in.started {
					if at > departedAt {
						departedAt = at
					}
					continue
				}
				if at > newestAt {
					newest, newestCl, newestAt = in, cl, at
				}
			}
		}
		if newest != nil && !newestCl.active {
			newest = nil
		}
		var owners []string
		for _, in := range w.liveInst() {
			if _, ok := views[in.name][k]; ok {
				owners = append(owners, in.name)
			}
		}
		sort.Strings(owners)
		if departedAt > newestAt && len(owners) == 0 {
			continue // evicted by the departed instance's newer claim
		}
		if newest == nil {
			if len(owners) > 0 {
				w.violate("C09", "phantom-owner", "shard %s: its latest claim has ended (released or its instance left) but it is still owned by %v", k, owners)
			}
			continue
		}
		if len(owners) != 1 || owners[0] != newest.name {
			w.violate("C09", "not-converged", "shard %s: %d claims, newest live claim by %s (at %v); after every announcement was delivered and two rounds of all-pairs state merges it is owned by %v", k, nClaim, newest.name, newestAt, owners)
			continue
		}
		for _, in := range w.liveInst() {
			if in == newest {
				continue
			}
			named := remotes[in.name][k]
			sort.Strings(named)
			if len(named) != 1 || named[0] != newest.name {
				w.violate("C09", "wrong-remote-owner", "shard %s is owned by %s, but %s names %v as its remote owner", k, newest.name, in.name, named)
			}
		}
	}
	for _, in := range w.all() {
		if !in.left {
			continue
		}
		back := false
		for _, o := range w.liveInst() {
			if o.name == in.name {
				back = true // the name is a member again (a new process); what is said about it is judged above
			}
		}
		if back {
			continue
		}
		for _, o := range w.liveInst() {
			for k, named := range remotes[o.name] {
				for _, n := range named {
					if n == in.name {
						sig := ""
						if w.net.MergedAfterLeave(o.name, in.name) {
							sig = "state-merged-after-leave-notification"
						}
						w.violateSig("C09", "left-instance-owns", sig, "%s left the cluster but %s still names it as owner of %s", in.name, o.name, k)
					}
				}
			}
		}
	}
}

// routingProbes: in the converged (quiescent) ownership state, every delivery call must
// agree with what the caller's own tables promised.
func (w *GossipWorld) routingProbes() {
	// let the reconcile loops build the intra-proxy links for the final ownership
	w.settle(3 * time.Second)
	first := len(w.probes)
	for _, in := range w.liveInst() {
		for _, sh := range w.shards() {
			// pick a counterpart shard of the other cluster that is local here if possible
			other := sid(3-sh.ClusterID, 1)
			for _, o := range w.shards() {
				if o.ClusterID != sh.ClusterID {
					if cl := in.claims[o]; cl != nil && cl.active {
						other = o
					}
				}
			}
			w.probe(in, "msg", sh, other)
			w.settle(0)
			w.probe(in, "ack", sh, other)
			w.settle(0)
		}
	}
	w.settle(4 * time.Second)
	for _, p := range w.probes[first:] {
		if !p.done {
			w.violate("C09", "probe-stuck", "%s probe #%d from %s to %s never returned; live tasks %v", p.kind, p.id, p.from, sidStr(p.shard), w.s.LiveTasks())
			continue
		}
		switch {
		case p.expLocal:
			if !p.result || len(p.seenAt) != 1 || !strings.HasPrefix(p.seenAt[0], p.from+"/") {
				w.violate("C09", "local-delivery", "%s probe #%d: %s has a local stream for %s but the call returned %v and the message was seen at %v", p.kind, p.id, p.from, sidStr(p.shard), p.result, p.seenAt)
			}
		case p.expOwner == "":
			if p.result || len(p.seenAt) != 0 {
				w.violate("C09", "undeliverable", "%s probe #%d: %s knows no owner for %s but the call returned %v and the message was seen at %v", p.kind, p.id, p.from, sidStr(p.shard), p.result, p.seenAt)
			}
		case strings.Contains(p.expOwner, ","):
			// the caller's table names several owners (reported by the convergence clause); only
			// the never-twice clause applies
		default:
			// a remote owner is known: delivered exactly once at that owner, or reported undelivered
			if p.result {
				if len(p.seenAt) != 1 || !strings.HasPrefix(p.seenAt[0], p.expOwner+"/") {
					w.violate("C09", "remote-delivery", "%s probe #%d from %s to %s: call reported delivery to owner %s but the message was seen at %v", p.kind, p.id, p.from, sidStr(p.shard), p.expOwner, p.seenAt)
				}
			} else if len(p.seenAt) != 0 {
				w.violate("C09", "reported-undelivered-but-delivered", "%s probe #%d from %s to %s returned false but the message was seen at %v", p.kind, p.id, p.from, sidStr(p.shard), p.seenAt)
			}
		}
	}
	// delivery calls made while ownership was in flux: whatever the tables said at the time, a
	// call that reported success must have handed the message to something - a local stream's
	// channel or an intra-proxy stream that accepted it (what becomes of it on that hop when
	// the owner goes away is C04's recorded finding) - and one that reported failure must not
	// have delivered it; twice is checked as it happens
	for _, p := range w.probes[:first] {
		if !p.chaos || !p.done {
			continue
		}
		key := fmt.Sprintf("%s/%d", p.kind, probeMarker(p.id))
		if p.result && len(p.seenAt) == 0 && !w.accepted[key] {
			w.violate("C09", "claimed-delivered-but-handed-to-nothing", "%s probe #%d from %s to %s (issued while ownership was in flux): the call reported delivery, but the message reached no local stream and no intra-proxy stream accepted it", p.kind, p.id, p.from, sidStr(p.shard))
		}
		if !p.result && len(p.seenAt) != 0 {
			w.violate("C09", "reported-undelivered-but-delivered", "%s probe #%d from %s to %s (issued while ownership was in flux) returned false but the message was seen at %v", p.kind, p.id, p.from, sidStr(p.shard), p.seenAt)
		}
	}
}
