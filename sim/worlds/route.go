package worlds

import (
	"context"
	"errors"
	"fmt"
	"os"
	"sort"
	"strconv"
	"strings"
	"time"

	"go.temporal.io/server/api/adminservice/v1"
	enumsspb "go.temporal.io/server/api/enums/v1"
	persistencespb "go.temporal.io/server/api/persistence/v1"
	replicationv1 "go.temporal.io/server/api/replication/v1"
	"go.temporal.io/server/client/history"
	servercommon "go.temporal.io/server/common"
	"go.temporal.io/server/common/channel"
	"go.temporal.io/server/common/log"
	"google.golang.org/grpc/codes"
	"google.golang.org/grpc/metadata"
	"google.golang.org/grpc/status"
	"google.golang.org/protobuf/proto"

	"github.com/temporalio/s2s-proxy/config"
	"github.com/temporalio/s2s-proxy/encryption"
	"github.com/temporalio/s2s-proxy/proxy"

	"vsim/fakeml"
	"vsim/seam"
	"vsim/simio"
	"vsim/simrt"
)

// ---------------------------------------------------------------------------
// ROUTE world: one proxy instance in shard-routing mode between cluster A (id 1,
// "local") and cluster B (id 2, "remote"). Real: both AdminService proxy servers,
// streamRouting, proxyStreamSender/Receiver, ring buffer, shardManagerImpl.
// Stub: gRPC stream objects (simio) and the two Temporal clusters (models below,
// written from Temporal 1.31.2's stream_sender / stream_receiver / task tracker).
// ---------------------------------------------------------------------------

// RouteProfile selects workload, faults and oracles for one property.
type RouteProfile struct {
	Name        string
	Faults      bool // stream breaks / reconnects (C04, C08)
	Churn       bool // successor incarnations may open while the predecessor is still tearing down (C08)
	NoAckTarget bool // some targets may not ack during the chaos phase (C01, C03)
	Liveness    bool // judge the C03 liveness tail
	CheckC02End bool // exactly-once / conservation at the end (no-failure profiles only)
	Cleanup     bool // judge the C08 end-of-run cleanup
	CheckC05    bool // in-system ack translation oracle (no-failure profiles)
	BadMetadata bool // C20 in routing mode: hostile stream-open metadata next to the regular streams
	Multi       bool // two or three proxy instances sharing a memberlist cluster; each cluster shard connects to one of them, tasks and acks for shards owned elsewhere travel over intra-proxy streams
	Crash       bool // multi-instance: an instance may crash (all its connections break, no leave broadcast; the others learn from the failure detector); its shards reconnect to the remaining instances
	Restart     bool // a crashed instance may be started again under its name (a new process: nothing carried over)
	BiasFaults  bool // place stream faults preferably where in-flight state exists (tasks delivered to a live target stream and not yet confirmed)
}

// RouteConfig is the per-run configuration, drawn from the tape first.
type RouteConfig struct {
	NInst       int
	NA, NB      int
	Dir         int // 0: A->B, 1: both, 2: B->A
	NumNS       int
	NumWF       int
	QueueCap    int
	RingCap     int
	Window      int
	MaxTasks    int
	PKeep       int
	ChaosBudget int
	FaultBudget int
	FaultAt     []int // decision from which the k-th fault may fire (faults spread over the run instead of all landing at its start)
	NoAck       map[string]bool
	LateOpen    map[string]int
	LateGen     map[string]int // decision before which a shard generates no task (a source that is idle at first: watermark-only batches)
}

type srcTask struct {
	id     int64
	ns, wf string
	pb     *replicationv1.ReplicationTask
}

type taskKey struct {
	src ShardID
	id  int64
}

type srcConn struct {
	sh            *shardModel
	st            *simio.Stream
	inc           int
	next          int64 // next task id to send (>=)
	lastHighSent  int64
	highDelivered int64 // last exclusive high the proxy has read on this incarnation
	anyDelivered  bool
	acks          []int64
	closed        bool
	lastWmAt      time.Duration
	inst          *rInst // the proxy instance that opened the stream
}

type tgtTask struct {
	proxyID int64
	key     taskKey
	done    bool
}

type tgtConn struct {
	sh          *shardModel
	st          *simio.Stream
	inc         int
	cancel      context.CancelFunc
	hasHigh     bool
	lastHigh    int64
	pending     []*tgtTask
	tracked     []*tgtTask // every task accepted by the tracker on this incarnation
	maxSeenID   int64
	acksEmitted []int64
	handlerDone bool
	handlerErr  error
	lastAckAt   time.Duration
	everAcked   bool
	sentTasks   []*tgtTask  // every task the proxy has put on this stream (OnS2C), received by the target or not
	ackTracked  []int       // len(tracked) at the emission of each ack, in order
	rounds      []*ackRound // C05: translations the proxy made for each ack it read on this stream
	inst        *rInst      // the proxy instance this stream is connected to
	startedAt   int         // decision at which the proxy handler for this stream began to run
	diedAt      int         // decision at which the stream was first seen dead (0 = alive)
	endedAt     int         // decision at which the proxy's handler for the stream was seen to have returned
}

// ackRound is one SyncReplicationState read by the proxy on a target stream and the
// per-source translations it produced (observed at ShardManager.DeliverAckToShardOwner).
type ackRound struct {
	w         int64
	prevW     int64
	nTracked  int // number of tasks the target had accepted when it emitted this ack
	delivered map[ShardID]int64
	attempted map[ShardID]int64 // translations handed to DeliverAckToShardOwner (recorded at the call, before it returns)
	checked   bool
}

type shardModel struct {
	cluster int32
	id      int32
	// source role
	log      []*srcTask
	nextID   int64
	ackLevel int64
	src      *srcConn
	srcIncs  int
	prevHigh int64          // largest exclusive high the proxy read on earlier incarnations of this shard's source stream
	wmHighs  map[int64]bool // every exclusive high this shard ever sent as source (any message kind)
	// target role
	tgt     *tgtConn
	tgtIncs int
	allTgt  []*tgtConn
}

func (sh *shardModel) sid() ShardID { return sid(sh.cluster, sh.id) }
func (sh *shardModel) name() string { return fmt.Sprintf("%c%d", 'A'+rune(sh.cluster-1), sh.id) }

type delivery struct {
	conn    *tgtConn
	proxyID int64
	order   int
}

// rInst is one proxy instance of the deployment.
type rInst struct {
	name, addr string
	lifetime   context.Context
	cancel     context.CancelFunc
	sm         proxy.ShardManager
	outbound   adminservice.AdminServiceServer // serves cluster A
	inbound    adminservice.AdminServiceServer // serves cluster B
	observerA  *proxy.ReplicationStreamObserver
	observerB  *proxy.ReplicationStreamObserver
	startOK    bool
	gen        int    // 0, or the number of the restart that created this generation
	startTask  string // name of the task that runs Start (the root of the generation's goroutines)
	dead       bool   // crashed: isolated from everything, ignored by the oracles from then on
}

// RouteWorld implements simrt.World.
type RouteWorld struct {
	s    *simrt.Sim
	prof RouteProfile
	cfg  RouteConfig

	lifetime    context.Context
	cancelAll   context.CancelFunc
	sm          proxy.ShardManager
	outbound    adminservice.AdminServiceServer // serves cluster A
	inbound     adminservice.AdminServiceServer // serves cluster B
	observerA   *proxy.ReplicationStreamObserver
	observerB   *proxy.ReplicationStreamObserver
	insts       []*rInst
	scc         config.ShardCountConfig
	addrs       map[string]string
	mlnet       *fakeml.Network
	lastPP      map[string]time.Duration
	pendingDead [][2]string     // (at, dead): failure-detector verdicts not yet delivered
	deadStarts  map[string]bool // start tasks of crashed generations: whatever descends from them is a zombie without a network

	shards [3][]*shardModel // [cluster][shard-1]
	phase  int              // 0 chaos, 1 tail, 2 close
	nextSt int

	confirmed        map[taskKey]bool
	deliveries       map[taskKey][]delivery
	delivOrder       int
	toProxy          map[taskKey]bool       // source task read by the proxy (any incarnation)
	readAt           map[taskKey]int        // decision at which the proxy last read the task
	readInc          map[taskKey]int        // source stream incarnation over which the proxy last read it
	readCount        map[taskKey]int        // number of distinct source incarnations over which the proxy read it
	ackedUnconfirmed map[taskKey]bool       // tasks already reported as acknowledged without confirmation
	intraSent        map[taskKey][]intraHop // multi-instance: intra-proxy streams a task was written to
	intraStreams     []*simio.Stream
	intraEnds        map[*simio.Stream][2]string // opener, peer
	intraWroteAt     map[*simio.Stream]int       // decision of the last task-bearing message written to the stream

	faultsLeft int
	faults     map[string]int
	viol       []Violation
	anyFault   bool
	msgsToTgt  int
	acksToSrc  int
	tailStart  time.Duration
	tailOK     bool
	// which stream incarnation made the last registration call of each kind for each shard
	lastReg   map[string]map[ShardID]string
	lastRegAt map[string]time.Time
	badOpens  []*badOpen
	badLeft   int
}

// badOpen is one stream opened with hostile metadata (C20, routing mode).
type badOpen struct {
	name   string
	md     map[string]string
	st     *simio.Stream
	cancel context.CancelFunc
	done   bool
	err    error
}

const (
	clusterA int32 = 1
	clusterB int32 = 2
)

func drawRouteConfig(s *simrt.Sim, prof RouteProfile) RouteConfig {
	c := RouteConfig{NInst: 1}
	if prof.Multi {
		c.NInst = 2 + s.Draw(2)
	}
	c.NA = 1 + s.Draw(4)
	c.NB = 1 + s.Draw(4)
	c.Dir = s.Draw(3)
	c.NumNS = 1 + s.Draw(2)
	c.NumWF = 2 + s.Draw(7)
	c.QueueCap = []int{100, 1, 2, 4}[s.Draw(4)]
	c.RingCap = []int{1024, 1, 2, 4, 8}[s.Draw(5)]
	c.Window = []int{16, 1, 2, 3}[s.Draw(4)]
	c.MaxTasks = 3 + s.Draw(24)
	c.PKeep = []int{95, 85, 70, 50}[s.Draw(4)]
	c.ChaosBudget = []int{1500, 600, 3000, 6000}[s.Draw(4)]
	if prof.Faults {
		c.FaultBudget = s.Draw(4)
		if prof.BiasFaults {
			c.FaultBudget = 1 + s.Draw(3)
		}
		if prof.Churn {
			// churn profile: every fault is one more overlap of a successor with its predecessor's teardown
			c.FaultBudget = 1 + s.Draw(6)
		}
		spread := prof.BiasFaults || s.Draw(2) == 1
		for i := 0; i < c.FaultBudget; i++ {
			at := 0
			if spread {
				at = s.Draw(c.ChaosBudget)
			}
			c.FaultAt = append(c.FaultAt, at)
		}
		sort.Ints(c.FaultAt)
	}
	c.NoAck = map[string]bool{}
	c.LateOpen = map[string]int{}
	c.LateGen = map[string]int{}
	for cl := clusterA; cl <= clusterB; cl++ {
		n := c.NA
		if cl == clusterB {
			n = c.NB
		}
		for i := 1; i <= n; i++ {
			name := fmt.Sprintf("%c%d", 'A'+rune(cl-1), i)
			if prof.NoAckTarget && s.Draw(4) == 3 {
				c.NoAck[name] = true
			}
			if s.Draw(3) == 2 {
				c.LateOpen[name] = 50 + s.Draw(8)*100
			}
			if s.Draw(4) == 3 {
				c.LateGen[name] = 100 + s.Draw(8)*100
			}
		}
	}
	return c
}

func (w *RouteWorld) count(cl int32) int {
	if cl == clusterA {
		return w.cfg.NA
	}
	return w.cfg.NB
}

func other(cl int32) int32 { return 3 - cl }

func (w *RouteWorld) shard(id ShardID) *shardModel {
	if id.ClusterID < 1 || id.ClusterID > 2 || id.ShardID < 1 || int(id.ShardID) > len(w.shards[id.ClusterID]) {
		return nil
	}
	return w.shards[id.ClusterID][id.ShardID-1]
}

// NewRouteWorld assembles the proxy the way NewClusterConnection parameterises it for
// routing mode (cluster_connection.go: getRoutingParameters).
func NewRouteWorld(s *simrt.Sim, prof RouteProfile) *RouteWorld {
	w := &RouteWorld{s: s, prof: prof, confirmed: map[taskKey]bool{}, deliveries: map[taskKey][]delivery{},
		toProxy: map[taskKey]bool{}, readAt: map[taskKey]int{}, readInc: map[taskKey]int{}, readCount: map[taskKey]int{}, faults: map[string]int{}, ackedUnconfirmed: map[taskKey]bool{}, intraSent: map[taskKey][]intraHop{}, intraEnds: map[*simio.Stream][2]string{}, intraWroteAt: map[*simio.Stream]int{}}
	w.cfg = drawRouteConfig(s, prof)
	s.SetPKeep(w.cfg.PKeep)
	w.faultsLeft = w.cfg.FaultBudget
	if prof.BadMetadata {
		w.badLeft = 2 + s.Draw(4)
	}
	s.SetKnobFn(func(site, def int) int {
		n := simrt.SiteName(site)
		switch {
		case strings.Contains(n, "proxy_streams.go") && strings.Contains(n, "knob:makechan"):
			return w.cfg.QueueCap
		case strings.Contains(n, "knob:newProxyIDRingBuffer"):
			return w.cfg.RingCap
		}
		return def
	})
	w.lifetime, w.cancelAll = context.WithCancel(context.Background())
	scc := config.ShardCountConfig{Mode: config.ShardCountRouting, LocalShardCount: int32(w.cfg.NA), RemoteShardCount: int32(w.cfg.NB)}
	addrs := map[string]string{}
	for i := 0; i < w.cfg.NInst; i++ {
		addrs[fmt.Sprintf("n%d", i+1)] = fmt.Sprintf("proxy-n%d:7000", i+1)
	}
	if prof.Multi {
		w.lastPP = map[string]time.Duration{}
		w.mlnet = fakeml.NewNetwork()
		w.mlnet.Spawn = func(name string, f func()) { s.Spawn(name, f) }
		if os.Getenv("VSIM_PROXYLOG") != "" {
			w.mlnet.Logf = func(format string, args ...any) { s.Log(format, args...) }
		}
		w.mlnet.DeadProcess = func() bool {
			for _, t := range simrt.CurrentLineage() {
				if w.deadStarts[t] {
					return true
				}
			}
			return false
		}
		fakeml.Use(w.mlnet)
		seam.Reset()
	}
	w.scc, w.addrs = scc, addrs
	for i := 0; i < w.cfg.NInst; i++ {
		w.insts = append(w.insts, w.newInstance(i, 0))
	}
	w.sm, w.outbound, w.inbound = w.insts[0].sm, w.insts[0].outbound, w.insts[0].inbound
	w.observerA, w.observerB = w.insts[0].observerA, w.insts[0].observerB
	if prof.Multi {
		// intra-proxy link: a stream opened towards a peer's proxy address terminates in that peer's real handler
		seam.IntraClientFactory = func(target string) adminservice.AdminServiceClient {
			return &adminClient{name: "intra->" + target, open: func(ctx context.Context) (adminservice.AdminService_StreamWorkflowReplicationMessagesClient, error) {
				var peer *rInst
				for _, in := range w.insts {
					if in.addr == target {
						peer = in
					}
				}
				if peer == nil || !peer.startOK || peer.dead {
					return nil, status.Error(codes.Unavailable, "peer unreachable")
				}
				w.nextSt++
				st := simio.NewStream(fmt.Sprintf("intra%d->%s", w.nextSt, peer.name), w.nextSt, ctx, 0)
				for _, t := range simrt.CurrentLineage() {
					if w.deadStarts[t] {
						return nil, status.Error(codes.Unavailable, "network unreachable")
					}
				}
				omd, _ := metadata.FromOutgoingContext(ctx)
				opener := ""
				if v := omd.Get("x-s2s-origin-proxy-id"); len(v) > 0 {
					opener = v[0]
				}
				for _, in := range w.insts {
					if in.name == opener && in.dead {
						return nil, status.Error(codes.Unavailable, "network unreachable")
					}
				}
				s.Log("intra stream %s opened by %s: %s", st.Name, opener, mdSummary(omd))
				w.intraStreams = append(w.intraStreams, st)
				w.intraEnds[st] = [2]string{opener, peer.name}
				// tasks travel from the stream's server side (the source shard's instance) to the
				// instance that opened it (the one that owned the target shard when it did)
				st.OnS2C = func(m *simio.Res) {
					if msgs := m.GetMessages(); msgs != nil {
						if len(msgs.ReplicationTasks) > 0 {
							w.intraWroteAt[st] = w.s.Stats.Decisions
						}
						for _, t := range msgs.ReplicationTasks {
							if t.RawTaskInfo != nil {
								if k, ok := parseMarker(t.RawTaskInfo.RunId); ok {
									w.intraSent[k] = append(w.intraSent[k], intraHop{to: opener, st: st})
								}
							}
						}
					}
				}
				s.Spawn("intra-handler:"+st.Name, func() {
					err := peer.outbound.StreamWorkflowReplicationMessages(simio.ServerEnd{S: st})
					st.ServerFinish(err)
				})
				return simio.ClientEnd{S: st}, nil
			}}
		}
	}
	for cl := clusterA; cl <= clusterB; cl++ {
		for i := 1; i <= w.count(cl); i++ {
			// task ids of different shards live in unrelated ranges; a low range puts a source's
			// ids below the proxy ids that accumulate on a busy target stream, a high one far above
			base := []int64{10, 10, 1, 1000}[s.Draw(4)]
			w.shards[cl] = append(w.shards[cl], &shardModel{cluster: cl, id: int32(i), nextID: base, ackLevel: 0})
		}
	}
	return w
}

// newInstance builds proxy instance number i (generation gen: 0 at the beginning, 1.. for a
// restart after a crash, with the same name and addresses but nothing carried over - the
// proxy keeps no durable state) and starts it.
func (w *RouteWorld) newInstance(i, gen int) *rInst {
	s, prof, scc, addrs := w.s, w.prof, w.scc, w.addrs
	loggers := noopLoggers{}
	in := &rInst{name: fmt.Sprintf("n%d", i+1), gen: gen}
	in.startTask = "start:" + in.name
	if gen > 0 {
		in.startTask = fmt.Sprintf("start:%s.r%d", in.name, gen)
	}
	in.addr = addrs[in.name]
	toA := &adminClient{name: "toA", open: func(ctx context.Context) (adminservice.AdminService_StreamWorkflowReplicationMessagesClient, error) {
		return w.openSource(in, clusterA, ctx)
	}}
	toB := &adminClient{name: "toB", open: func(ctx context.Context) (adminservice.AdminService_StreamWorkflowReplicationMessagesClient, error) {
		return w.openSource(in, clusterB, ctx)
	}}
	in.lifetime, in.cancel = w.lifetime, w.cancelAll
	var mc *config.MemberlistConfig
	if prof.Multi {
		mc = &config.MemberlistConfig{Enabled: true, NodeName: in.name, BindAddr: fmt.Sprintf("10.0.0.%d", i+1), BindPort: 7946, ProxyAddresses: addrs}
		if prof.Crash {
			// every instance is configured with all the others (a DNS name that resolves to the
			// whole deployment): a crashed seed must not keep the survivors apart
			for j := 0; j < w.cfg.NInst; j++ {
				if j != i {
					mc.JoinAddrs = append(mc.JoinAddrs, fmt.Sprintf("10.0.0.%d:7946", j+1))
				}
			}
		} else if i > 0 {
			mc.JoinAddrs = []string{"10.0.0.1:7946"}
		}
	}
	in.sm = proxy.NewShardManager(mc, scc, encryption.TLSConfig{}, loggers)
	var smForServers proxy.ShardManager = recSM{ShardManager: in.sm, w: w, inst: in.name}
	in.observerA = proxy.NewReplicationStreamObserver(noopLoggers{}.Get(""))
	in.observerB = proxy.NewReplicationStreamObserver(noopLoggers{}.Get(""))
	// outbound server: serves the local cluster A; adminClient -> B, reverse -> A
	in.outbound = proxy.NewAdminServiceProxyServer("outboundAdminService", toB, toA, proxy.AdminServiceOverrides{},
		[]string{"outbound"}, in.observerA.ReportStreamValue, scc, proxy.LCMParameters{},
		proxy.RoutingParameters{OverrideShardCount: scc.LocalShardCount, RoutingLocalShardCount: scc.RemoteShardCount, DirectionLabel: "outbound"},
		loggers, smForServers, w.lifetime)
	// inbound server: serves the remote cluster B; adminClient -> A, reverse -> B
	in.inbound = proxy.NewAdminServiceProxyServer("inboundAdminService", toA, toB, proxy.AdminServiceOverrides{},
		[]string{"inbound"}, in.observerB.ReportStreamValue, scc, proxy.LCMParameters{},
		proxy.RoutingParameters{OverrideShardCount: scc.RemoteShardCount, RoutingLocalShardCount: scc.LocalShardCount, DirectionLabel: "inbound"},
		loggers, smForServers, w.lifetime)
	if prof.Multi {
		in := in
		s.Spawn(in.startTask, func() {
			if err := in.sm.Start(in.lifetime); err != nil {
				// the real process exits when its shard manager cannot start (memberlist.Create is
				// given 10 s; a goroutine stalled for longer is a legal if extreme schedule): for
				// the deployment that is one more instance crash; when it happens in the tail the
				// fault-free period starts from there
				s.Log("instance %s: shard manager start: %v - the process exits", in.name, err)
				if !prof.Crash {
					in.startOK = true // profiles without instance loss keep the instance (it never saw a peer)
					return
				}
				if !in.dead {
					w.crash(in)
					if w.phase == 1 {
						w.tailStart = s.Now()
						s.ExtendBudget(400000, 120*time.Second)
					}
				}
				return
			}
			in.startOK = true
		})
	} else {
		_ = in.sm.Start(w.lifetime)
		in.startOK = true
	}
	return in
}

func (w *RouteWorld) violate(prop, clause, format string, args ...any) {
	w.violateSig(prop, clause, "", format, args...)
}

func (w *RouteWorld) violateSig(prop, clause, sig, format string, args ...any) {
	v := Violation{Property: prop, Clause: clause, Sig: sig, Detail: fmt.Sprintf(format, args...), Decision: w.s.Stats.Decisions, VTimeMs: w.s.Now().Milliseconds()}
	w.s.Log("VIOLATION %s/%s: %s", prop, clause, v.Detail)
	if len(w.viol) < 20 {
		w.viol = append(w.viol, v)
	}
}

// emitsTasks reports whether shards of cluster cl generate replication tasks in this run.
func (w *RouteWorld) emitsTasks(cl int32) bool {
	switch w.cfg.Dir {
	case 0:
		return cl == clusterA
	case 2:
		return cl == clusterB
	}
	return true
}

// ---- source role: the stream the proxy opens towards a cluster shard ----

func parseMD(ctx context.Context, key string) (int32, bool) {
	md, ok := metadata.FromOutgoingContext(ctx)
	if !ok {
		return 0, false
	}
	v := md.Get(key)
	if len(v) == 0 {
		return 0, false
	}
	n, err := strconv.Atoi(v[0])
	return int32(n), err == nil
}

func (w *RouteWorld) openSource(in *rInst, cl int32, ctx context.Context) (adminservice.AdminService_StreamWorkflowReplicationMessagesClient, error) {
	if in.dead {
		return nil, status.Error(codes.Unavailable, "connection refused")
	}
	srvCl, _ := parseMD(ctx, history.MetadataKeyServerClusterID)
	srvSh, ok := parseMD(ctx, history.MetadataKeyServerShardID)
	sh := w.shard(sid(srvCl, srvSh))
	if !ok || sh == nil || srvCl != cl {
		return nil, status.Error(codes.InvalidArgument, "unknown server shard")
	}
	w.nextSt++
	sh.srcIncs++
	st := simio.NewStream(fmt.Sprintf("src-%s#%d", sh.name(), sh.srcIncs), w.nextSt, ctx, w.cfg.Window)
	c := &srcConn{sh: sh, st: st, inc: sh.srcIncs, next: sh.ackLevel, inst: in}
	if old := sh.src; old != nil && old.highDelivered > sh.prevHigh {
		sh.prevHigh = old.highDelivered
	}
	if old := sh.src; old != nil && !old.closed {
		// the cluster keeps one sender per (client, server) shard pair: a new stream replaces the old one
		old.closed = true
		old.st.ServerFinish(status.Error(codes.Aborted, "replaced by newer stream"))
	}
	sh.src = c
	st.OnDeliverS2C = func(m *simio.Res) {
		if msgs := m.GetMessages(); msgs != nil {
			c.highDelivered = msgs.ExclusiveHighWatermark
			c.anyDelivered = true
			for _, t := range msgs.ReplicationTasks {
				k := taskKey{sh.sid(), t.SourceTaskId}
				w.toProxy[k] = true
				w.readAt[k] = w.s.Stats.Decisions
				if w.readInc[k] != c.inc {
					w.readCount[k]++
				}
				w.readInc[k] = c.inc
			}
		}
	}
	st.OnC2S = func(r *simio.Req) { w.onAckToSource(c, r) }
	w.s.Log("proxy opened source stream %s (resume from %d)", st.Name, c.next)
	return simio.ClientEnd{S: st}, nil
}

func marker(src ShardID, id int64) string {
	return fmt.Sprintf("m|%d|%d|%d", src.ClusterID, src.ShardID, id)
}

func parseMarker(m string) (taskKey, bool) {
	p := strings.Split(m, "|")
	if len(p) != 4 || p[0] != "m" {
		return taskKey{}, false
	}
	c, e1 := strconv.Atoi(p[1])
	s, e2 := strconv.Atoi(p[2])
	id, e3 := strconv.ParseInt(p[3], 10, 64)
	if e1 != nil || e2 != nil || e3 != nil {
		return taskKey{}, false
	}
	return taskKey{sid(int32(c), int32(s)), id}, true
}

func (w *RouteWorld) genTasks(sh *shardModel) {
	n := 1 + w.s.Draw(3)
	for i := 0; i < n && len(sh.log) < w.cfg.MaxTasks; i++ {
		id := sh.nextID + int64(w.s.Draw(3)) // gaps
		sh.nextID = id + 1
		ns := fmt.Sprintf("ns-%d", w.s.Draw(w.cfg.NumNS))
		wf := fmt.Sprintf("wf-%d", w.s.Draw(w.cfg.NumWF))
		pb := &replicationv1.ReplicationTask{
			TaskType:     enumsspb.REPLICATION_TASK_TYPE_SYNC_ACTIVITY_TASK,
			SourceTaskId: id,
			Priority:     enumsspb.TASK_PRIORITY_HIGH,
			RawTaskInfo: &persistencespb.ReplicationTaskInfo{
				NamespaceId: ns, WorkflowId: wf, RunId: marker(sh.sid(), id), TaskId: id, Version: 7, FirstEventId: id * 3,
			},
		}
		sh.log = append(sh.log, &srcTask{id: id, ns: ns, wf: wf, pb: pb})
	}
	w.s.Log("gen %s: log now %d tasks, next id %d", sh.name(), len(sh.log), sh.nextID)
}

func (c *srcConn) alive() bool { return !c.closed && !c.st.Dead() }

// unsent returns the tasks with id >= next.
func (c *srcConn) unsent() []*srcTask {
	var out []*srcTask
	for _, t := range c.sh.log {
		if t.id >= c.next {
			out = append(out, t)
		}
	}
	return out
}

func (w *RouteWorld) srcSend(c *srcConn, forceWatermark bool) {
	un := c.unsent()
	msgs := &replicationv1.WorkflowReplicationMessages{Priority: enumsspb.TASK_PRIORITY_HIGH}
	kind := 0
	if len(un) > 0 && !forceWatermark {
		kind = w.s.Draw(3) // 0 single task (what 1.31 sends), 1 multi-task batch, 2 multi-task batch with a high above last+1
		k := 1
		if kind > 0 {
			k = 1 + w.s.Draw(min(4, len(un)))
		}
		for _, t := range un[:k] {
			msgs.ReplicationTasks = append(msgs.ReplicationTasks, proto.Clone(t.pb).(*replicationv1.ReplicationTask))
		}
		last := un[k-1].id
		msgs.ExclusiveHighWatermark = last + 1
		if kind == 2 && k == len(un) {
			msgs.ExclusiveHighWatermark = c.sh.nextID
		}
		c.next = last + 1
	} else {
		// watermark-only: everything below the queue's exclusive high read watermark has been sent
		msgs.ExclusiveHighWatermark = c.sh.nextID
		if len(un) > 0 {
			return
		}
		c.next = c.sh.nextID
	}
	c.lastHighSent = msgs.ExclusiveHighWatermark
	c.lastWmAt = w.s.Now()
	if c.sh.wmHighs == nil {
		c.sh.wmHighs = map[int64]bool{}
	}
	c.sh.wmHighs[msgs.ExclusiveHighWatermark] = true
	ids := []int64{}
	for _, t := range msgs.ReplicationTasks {
		ids = append(ids, t.SourceTaskId)
	}
	w.s.Log("src %s sends ids=%v high=%d", c.st.Name, ids, msgs.ExclusiveHighWatermark)
	c.st.PushS2C(&simio.Res{Attributes: &adminservice.StreamWorkflowReplicationMessagesResponse_Messages{Messages: msgs}})
}

// onAckToSource runs at the instant the proxy sends a SyncReplicationState upstream.
func (w *RouteWorld) onAckToSource(c *srcConn, r *simio.Req) {
	st := r.GetSyncReplicationState()
	if st == nil {
		return
	}
	a := st.InclusiveLowWatermark
	w.acksToSrc++
	w.s.Log("proxy acks %s with %d (delivered high %d)", c.st.Name, a, c.highDelivered)
	// C03: monotone, bounded by the last exclusive high received from this source
	if n := len(c.acks); n > 0 && a < c.acks[n-1] {
		w.violate("C03", "monotone", "ack %d after %d on %s", a, c.acks[n-1], c.st.Name)
	}
	if a > c.highDelivered {
		w.violate("C03", "bounded", "ack %d exceeds last exclusive high %d received from %s", a, c.highDelivered, c.st.Name)
	}
	c.acks = append(c.acks, a)
	// C01 / C04: everything below a must have been confirmed by the target stream it was forwarded on
	for _, t := range c.sh.log {
		if t.id >= a {
			break
		}
		k := taskKey{c.sh.sid(), t.id}
		if w.confirmed[k] || w.ackedUnconfirmed[k] {
			// an acknowledged-but-unconfirmed task is one loss, reported once (at the first ack that
			// covers it); the source resumes above it on later incarnations
			continue
		}
		w.ackedUnconfirmed[k] = true
		where := "never forwarded to any target stream"
		if ds := w.deliveries[k]; len(ds) > 0 {
			var parts []string
			for _, d := range ds {
				parts = append(parts, fmt.Sprintf("%s as proxy id %d (acks emitted there: %v)", d.conn.st.Name, d.proxyID, d.conn.acksEmitted))
			}
			where = "forwarded on " + strings.Join(parts, "; ")
		}
		if w.toProxy[k] && !w.anyFault {
			w.violate("C01", "early-ack", "source %s acked %d but task %d is unconfirmed: %s", c.sh.name(), a, t.id, where)
		}
		if w.anyFault {
			w.violateSig("C04", "ack-of-unconfirmed", w.c04Sig(c, t, k), "source %s acked %d but task %d was never confirmed by any target stream: %s", c.sh.name(), a, t.id, where)
		}
	}
}

// c04Sig classifies an acknowledged-but-unconfirmed task by what happened to it, from
// externally observable facts only. "in-flight-state-died-with-target-stream": the proxy
// read the task on the very source stream incarnation that is now being acked, and the
// task's in-flight state (queued for, or sent on, a stream of its owner target shard)
// died with a target stream incarnation that ended after the proxy had read the task.
func (w *RouteWorld) c04Sig(c *srcConn, t *srcTask, k taskKey) string {
	if !w.toProxy[k] {
		return ""
	}
	owner := servercommon.WorkflowIDToHistoryShard(t.ns, t.wf, int32(w.count(other(k.src.ClusterID))))
	osh := w.shard(sid(other(k.src.ClusterID), owner))
	if osh == nil {
		return ""
	}
	ds := w.deliveries[k]
	// (b) the source stream was restarted and resent the task; on a still-live stream of the
	// owner target shard a task of the same source with a HIGHER original id (routed by the
	// previous incarnation) sits at a lower proxy id than every live copy of this task.
	if w.readCount[k] >= 2 {
		for _, tc := range osh.allTgt {
			// a stream (of any incarnation: a half-closed or broken one keeps translating until its
			// teardown) made, for this source, a translation above the task out of an ack that
			// covers no copy of the task on that stream, and not above what earlier source
			// incarnations had delivered: the stale entry may be a watermark-only one
			minOn := int64(1) << 62
			for _, d := range ds {
				if d.conn == tc && d.proxyID < minOn {
					minOn = d.proxyID
				}
			}
			for _, r := range tc.rounds {
				if v, ok := r.attempted[k.src]; ok && v > k.id && r.w <= minOn && v <= c.sh.prevHigh {
					return "resent-behind-stale-entry-after-source-restart"
				}
			}
			if tc.diedAt != 0 {
				continue
			}
			minLive := int64(1) << 62
			for _, d := range ds {
				if d.conn == tc && d.proxyID < minLive {
					minLive = d.proxyID
				}
			}
			for _, tt := range tc.tracked {
				if tt.key.src == k.src && tt.key.id > k.id && tt.proxyID < minLive {
					return "resent-behind-stale-entry-after-source-restart"
				}
			}
			// the stale entry may also be a watermark-only entry of the previous incarnation (no task
			// to see on the stream): an ack on this stream that does not cover any live copy of the
			// task was translated, for this source, to a value above the task and not above what the
			// previous incarnations had delivered
			for _, r := range tc.rounds {
				if v, ok := r.attempted[k.src]; ok && v > k.id && r.w <= minLive && v <= c.sh.prevHigh {
					return "resent-behind-stale-entry-after-source-restart"
				}
			}
		}
	}
	// (a) in-flight state died with a target stream
	if w.readInc[k] != c.inc {
		return ""
	}

	for _, d := range ds {
		if d.conn.diedAt == 0 {
			return "" // still pending on a live target stream: nothing was lost, the ack is simply early
		}
	}
	for _, tc := range osh.allTgt {
		// the proxy-side teardown of that incarnation finished (or is still running) after the read
		if tc.diedAt != 0 && (tc.endedAt == 0 || tc.endedAt >= w.readAt[k]) {
			return "in-flight-state-died-with-target-stream"
		}
	}
	// multi-instance deployment: the hand-off across the intra-proxy hop is fire-and-forget. The
	// task was written to an intra-proxy stream (which is when the source's instance counts it
	// as handed off), that stream has since been torn down, and no target stream ever got it.
	if hops := w.intraSent[k]; len(ds) == 0 && len(hops) > 0 {
		h := hops[len(hops)-1]
		if h.st.Dead() {
			return "in-flight-on-intra-proxy-hop-lost"
		}
		// the same loss before the hop is torn down: the target shard's stream has moved away from
		// the instance the task was handed to; the task waits in that instance's intra-proxy
		// receiver for a local stream that is not coming back (until the reconcile loop closes the
		// hop), while the shard's new stream on another instance acknowledges watermarks
		var cur *tgtConn
		for _, tc := range osh.allTgt {
			if tc.diedAt == 0 {
				cur = tc
			}
		}
		if cur == nil || cur.inst.name != h.to {
			return "in-flight-on-intra-proxy-hop-lost"
		}
	}
	return ""
}

// intraHop is one write of a task to an intra-proxy stream.
type intraHop struct {
	to string // instance that opened the stream (the owner of the target shard at that time)
	st *simio.Stream
}

func (w *RouteWorld) srcReadAck(c *srcConn) {
	r := c.st.PopC2S()
	if st := r.GetSyncReplicationState(); st != nil {
		if st.InclusiveLowWatermark > c.sh.ackLevel {
			c.sh.ackLevel = st.InclusiveLowWatermark
		}
	}
}

// ---- target role: the stream a cluster shard opens to the proxy ----

func (w *RouteWorld) tgtOpen(sh *shardModel) {
	w.nextSt++
	sh.tgtIncs++
	md := metadata.Pairs(
		history.MetadataKeyClientClusterID, strconv.Itoa(int(sh.cluster)),
		history.MetadataKeyClientShardID, strconv.Itoa(int(sh.id)),
		history.MetadataKeyServerClusterID, strconv.Itoa(int(other(sh.cluster))),
		history.MetadataKeyServerShardID, strconv.Itoa(int(sh.id)),
	)
	ctx, cancel := context.WithCancel(metadata.NewOutgoingContext(context.Background(), md))
	st := simio.NewStream(fmt.Sprintf("tgt-%s#%d", sh.name(), sh.tgtIncs), w.nextSt, ctx, w.cfg.Window)
	c := &tgtConn{sh: sh, st: st, inc: sh.tgtIncs, cancel: cancel, inst: w.insts[0]}
	if w.prof.Multi {
		// the load balancer in front of the proxy instances picks one per connection
		var alive []*rInst
		for _, in := range w.insts {
			if !in.dead {
				alive = append(alive, in)
			}
		}
		c.inst = alive[w.s.Draw(len(alive))]
	}
	sh.tgt = c
	sh.allTgt = append(sh.allTgt, c)
	srv := c.inst.outbound
	if sh.cluster == clusterB {
		srv = c.inst.inbound
	}
	st.OnS2C = func(m *simio.Res) {
		if msgs := m.GetMessages(); msgs != nil {
			for _, t := range msgs.ReplicationTasks {
				tt := &tgtTask{proxyID: t.SourceTaskId}
				if t.RawTaskInfo != nil {
					tt.key, _ = parseMarker(t.RawTaskInfo.RunId)
				}
				c.sentTasks = append(c.sentTasks, tt)
			}
		}
	}
	st.OnDeliverC2S = func(r *simio.Req) {
		if ss := r.GetSyncReplicationState(); ss != nil {
			w.s.Log("proxy reads ack %d on %s", ss.InclusiveLowWatermark, c.st.Name)
			prev := int64(0)
			if n := len(c.rounds); n > 0 {
				w.checkRound(c, c.rounds[n-1])
				prev = c.rounds[n-1].w
				if c.rounds[n-1].prevW > prev {
					prev = c.rounds[n-1].prevW
				}
			}
			nt := len(c.tracked)
			if idx := len(c.rounds); idx < len(c.ackTracked) {
				nt = c.ackTracked[idx]
			}
			c.rounds = append(c.rounds, &ackRound{w: ss.InclusiveLowWatermark, prevW: prev, nTracked: nt, delivered: map[ShardID]int64{}})
		}
	}
	w.s.Log("target %s opens stream %s at %s", sh.name(), st.Name, c.inst.name)
	w.s.Spawn("handler:"+st.Name, func() {
		c.startedAt = max(1, w.s.Stats.Decisions)
		err := srv.StreamWorkflowReplicationMessages(simio.ServerEnd{S: st})
		st.ServerFinish(err)
		c.handlerDone = true
		c.handlerErr = err
	})
}

// openBad opens a stream with hostile cluster/shard metadata on one of the two servers,
// optionally marked as an intra-proxy stream.
func (w *RouteWorld) openBad() {
	w.badLeft--
	w.nextSt++
	// the initiator's own shard id is one no regular stream uses, so that a hostile open does
	// not simply act as a second incarnation of a regular stream (that is C08's subject)
	own := strconv.Itoa(1000 + len(w.badOpens))
	md := map[string]string{
		history.MetadataKeyClientClusterID: "1", history.MetadataKeyClientShardID: own,
		history.MetadataKeyServerClusterID: "2", history.MetadataKeyServerShardID: "1",
	}
	srv := w.outbound
	if w.s.Draw(2) == 1 {
		srv = w.inbound
		md[history.MetadataKeyClientClusterID], md[history.MetadataKeyServerClusterID] = "2", "1"
	}
	keys := []string{history.MetadataKeyServerShardID, history.MetadataKeyClientShardID, history.MetadataKeyServerClusterID, history.MetadataKeyClientClusterID}
	for i, n := 0, 1+w.s.Draw(2); i < n; i++ {
		k := keys[w.s.Draw(len(keys))]
		var v string
		switch w.s.Draw(4) {
		case 0, 1:
			v = badShardValues[w.s.Draw(len(badShardValues))]
		case 2:
			v = strconv.Itoa(238609294 + w.s.Draw(1<<30))
		default:
			v = strconv.Itoa(-1 - w.s.Draw(1<<30))
		}
		// a client shard id that (after the decoder's int32 truncation) equals a regular shard's
		// id would make the hostile stream a second incarnation of that shard's stream - C08's
		// subject, not C20's - so such values are skipped for this one key
		if k == history.MetadataKeyClientShardID {
			if n, err := strconv.ParseInt(strings.TrimSpace(v), 0, 64); err == nil && int32(n) >= 1 && int32(n) <= 8 {
				continue
			}
		}
		if v == "" {
			delete(md, k)
		} else {
			md[k] = v
		}
	}
	if w.s.Draw(4) == 0 {
		md["x-s2s-intra-proxy"] = "1"
		md["x-s2s-origin-proxy-id"] = "peer-x"
	}
	var pairs []string
	for _, k := range sortedKeys(md) {
		pairs = append(pairs, k, md[k])
	}
	ctx, cancel := context.WithCancel(metadata.NewOutgoingContext(context.Background(), metadata.Pairs(pairs...)))
	b := &badOpen{name: fmt.Sprintf("bad%d", len(w.badOpens)+1), md: md, cancel: cancel}
	b.st = simio.NewStream(b.name, w.nextSt, ctx, 4)
	w.badOpens = append(w.badOpens, b)
	w.s.Log("hostile open %s md=%v", b.name, md)
	w.s.Spawn("handler:"+b.name, func() {
		b.err = srv.StreamWorkflowReplicationMessages(simio.ServerEnd{S: b.st})
		b.st.ServerFinish(b.err)
		b.done = true
	})
}

// staleRegisteredLate: the last registration call of the given kind for this shard was made
// by the goroutines of an OLDER incarnation of its stream than the newest one - the server
// runs the incarnations' goroutines concurrently and nothing orders their registrations, so
// a stale stream can register after (and then clean up on top of) its successor.
func (w *RouteWorld) staleRegisteredLate(sh *shardModel, kind string) string {
	c := sh.tgt
	if c == nil {
		return ""
	}
	by := w.lastReg[kind+"@"+c.inst.name][sh.sid()]
	if by != "" && by != c.st.Name {
		return "stale-incarnation-registered-after-successor"
	}
	// multi-instance: the stale incarnation may be connected to another instance; its late
	// registration carries a later timestamp than the successor's and evicts it through the
	// ownership announcement
	if kind == "shard" && w.prof.Multi {
		if by := w.lastReg["shard@*"][sh.sid()]; by != "" && by != c.st.Name {
			return "stale-incarnation-registered-after-successor"
		}
	}
	return ""
}

func (c *tgtConn) usable() bool { return !c.st.Dead() && !c.handlerDone }

func (w *RouteWorld) tgtRecv(c *tgtConn) {
	m := c.st.PopS2C()
	msgs := m.GetMessages()
	if msgs == nil {
		w.violate("C02", "unknown-message", "target %s received a response without messages", c.st.Name)
		return
	}
	w.msgsToTgt++
	high := msgs.ExclusiveHighWatermark
	ids := []int64{}
	for _, t := range msgs.ReplicationTasks {
		ids = append(ids, t.SourceTaskId)
	}
	w.s.Log("tgt %s receives ids=%v high=%d", c.st.Name, ids, high)
	// Temporal ExecutableTaskTracker.TrackTasks, verbatim
	if c.hasHigh && high <= c.lastHigh {
		if len(msgs.ReplicationTasks) > 0 {
			w.violate("C02", "message-dropped", "target %s drops task-bearing message ids=%v: exclusive high %d <= previous %d", c.st.Name, ids, high, c.lastHigh)
		}
		return
	}
	lastTaskID := int64(-1)
	if n := len(c.pending); n > 0 {
		lastTaskID = c.pending[n-1].proxyID
	}
	for _, t := range msgs.ReplicationTasks {
		id := t.SourceTaskId
		if id <= c.maxSeenID {
			w.violate("C02", "ids-not-increasing", "target %s sees task id %d after %d", c.st.Name, id, c.maxSeenID)
		}
		if id > c.maxSeenID {
			c.maxSeenID = id
		}
		if lastTaskID >= id {
			w.violate("C02", "task-dropped", "target %s drops task id %d (<= last tracked %d)", c.st.Name, id, lastTaskID)
			continue
		}
		lastTaskID = id
		tt := &tgtTask{proxyID: id}
		if t.RawTaskInfo != nil {
			if k, ok := parseMarker(t.RawTaskInfo.RunId); ok {
				tt.key = k
				w.checkDelivered(c, t, k)
				w.delivOrder++
				w.deliveries[k] = append(w.deliveries[k], delivery{conn: c, proxyID: id, order: w.delivOrder})
			} else {
				w.violate("C02", "payload", "target %s: task %d lost its marker", c.st.Name, id)
			}
		} else {
			w.violate("C02", "payload", "target %s: task %d lost RawTaskInfo", c.st.Name, id)
		}
		c.pending = append(c.pending, tt)
		c.tracked = append(c.tracked, tt)
	}
	if high <= lastTaskID {
		w.violate("C02", "high-not-above-last-task", "target %s: exclusive high %d <= last task id %d (Temporal's tracker panics)", c.st.Name, high, lastTaskID)
	}
	c.lastHigh, c.hasHigh = high, true
}

// checkDelivered: owner shard and payload conservation (C02).
func (w *RouteWorld) checkDelivered(c *tgtConn, t *replicationv1.ReplicationTask, k taskKey) {
	src := w.shard(k.src)
	if src == nil {
		w.violate("C02", "payload", "task with unknown origin %v on %s", k, c.st.Name)
		return
	}
	var orig *srcTask
	for _, x := range src.log {
		if x.id == k.id {
			orig = x
		}
	}
	if orig == nil {
		w.violate("C02", "payload", "task %v was never emitted", k)
		return
	}
	owner := servercommon.WorkflowIDToHistoryShard(orig.ns, orig.wf, int32(w.count(c.sh.cluster)))
	if k.src.ClusterID == c.sh.cluster || owner != c.sh.id {
		w.violate("C02", "wrong-owner", "task %s/%d (ns=%s wf=%s) delivered to %s, owner is shard %d of cluster %d", sidStr(k.src), k.id, orig.ns, orig.wf, c.sh.name(), owner, other(k.src.ClusterID))
	}
	cp := proto.Clone(t).(*replicationv1.ReplicationTask)
	if cp.RawTaskInfo != nil && cp.RawTaskInfo.TaskId != cp.SourceTaskId {
		w.violate("C02", "payload", "task %s/%d: RawTaskInfo.TaskId %d != SourceTaskId %d", sidStr(k.src), k.id, cp.RawTaskInfo.TaskId, cp.SourceTaskId)
	}
	cp.SourceTaskId = orig.id
	if cp.RawTaskInfo != nil {
		cp.RawTaskInfo.TaskId = orig.id
	}
	if !proto.Equal(cp, orig.pb) {
		w.violate("C02", "payload", "task %s/%d payload changed in transit", sidStr(k.src), k.id)
	}
}

func (c *tgtConn) lowWatermark() (int64, bool) {
	kept := c.pending[:0]
	for _, t := range c.pending {
		if !t.done {
			kept = append(kept, t)
		}
	}
	c.pending = kept
	if len(c.pending) > 0 {
		return c.pending[0].proxyID, true
	}
	if c.hasHigh {
		return c.lastHigh, true
	}
	return 0, false
}

func (w *RouteWorld) tgtAck(c *tgtConn) {
	low, ok := c.lowWatermark()
	if !ok {
		return
	}
	c.acksEmitted = append(c.acksEmitted, low)
	c.ackTracked = append(c.ackTracked, len(c.tracked))
	c.lastAckAt = w.s.Now()
	c.everAcked = true
	for _, t := range c.tracked {
		if t.proxyID < low && t.key != (taskKey{}) {
			w.confirmed[t.key] = true
		}
	}
	w.s.Log("tgt %s acks %d", c.st.Name, low)
	c.st.PushC2S(&simio.Req{Attributes: &adminservice.StreamWorkflowReplicationMessagesRequest_SyncReplicationState{
		SyncReplicationState: &replicationv1.SyncReplicationState{InclusiveLowWatermark: low},
	}})
}

// ---- simrt.World ----

func (w *RouteWorld) allShards() []*shardModel {
	return append(append([]*shardModel(nil), w.shards[clusterA]...), w.shards[clusterB]...)
}

func (w *RouteWorld) Actions() []simrt.Action {
	var acts []simrt.Action
	add := func(name string, weight int, fault bool, do func()) {
		// fair tail: the clusters' receivers are prompt (they read, complete and ack before the
		// sources' next periodic step), which is the premise of the liveness clause
		prio := 0
		if strings.HasPrefix(name, "src-send") || strings.HasPrefix(name, "src-watermark") || strings.HasPrefix(name, "gen") {
			prio = 1
		}
		acts = append(acts, simrt.Action{Name: name, Weight: weight, Fault: fault, Prio: prio, Do: do})
	}
	now := w.s.Now()
	tail := w.phase == 1
	closing := w.phase == 2
	if w.prof.BadMetadata && w.badLeft > 0 && w.phase == 0 {
		add("bad-open", 3, false, w.openBad)
	}
	if closing {
		for _, b := range w.badOpens {
			b := b
			if !b.done && b.st.ClientCtx().Err() == nil {
				add("close bad:"+b.name, 5, false, func() { b.cancel() })
			}
		}
	}
	// multi-instance deployment: memberlist traffic between the instances; cluster shards
	// connect once every instance is up (its Start has returned)
	up := true
	nAlive := 0
	for _, in := range w.insts {
		if !in.startOK && !in.dead {
			up = false
		}
		if !in.dead {
			nAlive++
		}
	}
	if w.prof.Crash && up && nAlive >= 2 && w.faultDue() {
		for _, in := range w.insts {
			in := in
			if !in.dead {
				add("FAULT instance-crash:"+in.name, 2, true, func() { w.crash(in) })
			}
		}
	}
	// the network between two instances fails for one intra-proxy stream (connection reset):
	// both ends see their next operation fail; whatever was in flight on it is gone
	if w.prof.Multi && w.prof.Faults && w.faultDue() {
		for _, st := range w.intraStreams {
			st := st
			if !st.Dead() {
				// preferably while a task message has just been written to the stream
				fw := 1
				if at, ok := w.intraWroteAt[st]; ok && w.s.Stats.Decisions-at < 40 {
					fw = 2
				}
				add("FAULT intra-break:"+st.Name, fw, true, func() {
					w.fault("intra-break")
					st.Break(status.Error(codes.Unavailable, "connection reset by peer"))
				})
			}
		}
	}
	// a crashed instance is started again (same name and addresses, a new process)
	if w.prof.Restart && w.phase <= 1 {
		for i, in := range w.insts {
			i, in := i, in
			if in.dead && in.gen == 0 {
				add("instance-restart:"+in.name, 2, false, func() {
					w.s.Log("instance %s is started again", in.name)
					w.faults["instance-restart"]++
					// verdicts about the old incarnation that were not delivered yet are void
					kept := w.pendingDead[:0]
					for _, d := range w.pendingDead {
						if d[1] != in.name {
							kept = append(kept, d)
						}
					}
					w.pendingDead = kept
					w.insts[i] = w.newInstance(i, in.gen+1)
				})
			}
		}
	}
	// the failure detector of each surviving instance reports a crashed one some time later
	for _, d := range w.pendingDead {
		d := d
		add("ml-suspect:"+d[0]+"->"+d[1], 3, false, func() {
			w.mlnet.DeclareDead(d[0], d[1])
			kept := w.pendingDead[:0]
			for _, x := range w.pendingDead {
				if x != d {
					kept = append(kept, x)
				}
			}
			w.pendingDead = kept
		})
	}
	if w.mlnet != nil {
		for _, p := range w.mlnet.PendingSteps() {
			p := p
			add(fmt.Sprintf("ml-deliver:%s->%s#%d", p.Kind, p.To, p.Seq), 6, false, func() { w.mlnet.Deliver(p.Seq, false) })
		}
		// full state exchange: at any time during the chaos phase; in the fair tail at
		// memberlist's push/pull interval (30 s in the LAN configuration the proxy uses)
		for i := 0; i < len(w.insts); i++ {
			for j := i + 1; j < len(w.insts); j++ {
				a, b := w.insts[i], w.insts[j]
				pair := a.name + "-" + b.name
				if a.dead || b.dead {
					continue
				}
				if !(w.mlnet.Knows(a.name, b.name) && w.mlnet.Knows(b.name, a.name)) {
					continue
				}
				if w.phase == 0 || (w.phase >= 1 && now-w.lastPP[pair] >= 30*time.Second) {
					add("pushpull:"+pair, 1, false, func() {
						w.lastPP[pair] = w.s.Now()
						w.mlnet.PushPull(a.name, b.name)
					})
				}
			}
		}
	}
	for _, sh := range w.allShards() {
		sh := sh
		// --- target role ---
		c := sh.tgt
		canOpen := c == nil || c.handlerDone || (w.prof.Churn && c.st.Dead()) || (c.inst.dead && c.st.Dead())
		if closing || !up {
			canOpen = false
		}
		if canOpen && (tail || w.s.Stats.Decisions >= w.cfg.LateOpen[sh.name()]) {
			add("tgt-open:"+sh.name(), 6, false, func() { w.tgtOpen(sh) })
		}
		for _, tc := range sh.allTgt {
			tc := tc
			if tc.diedAt == 0 && (tc.st.Dead() || tc.st.ClientClosedSend || tc.handlerDone) {
				tc.diedAt = w.s.Stats.Decisions
				if tc.diedAt == 0 {
					tc.diedAt = 1
				}
			}
			if tc.endedAt == 0 && tc.handlerDone {
				tc.endedAt = max(1, w.s.Stats.Decisions)
			}
			if tc.st.LenS2C() > 0 && !tc.st.Dead() {
				add("tgt-recv:"+tc.st.Name, 8, false, func() { w.tgtRecv(tc) })
			}
		}
		if c != nil && c.usable() {
			npend := 0
			for _, t := range c.pending {
				if !t.done {
					npend++
				}
			}
			if npend > 0 {
				add("tgt-complete:"+c.st.Name, 6, false, func() {
					// complete one pending task, any order (first in the tail, so the tail is deterministic)
					idx := 0
					if !tail {
						idx = w.s.Draw(npend)
					}
					for _, t := range c.pending {
						if !t.done {
							if idx == 0 {
								t.done = true
								w.s.Log("tgt %s completes proxy id %d", c.st.Name, t.proxyID)
								return
							}
							idx--
						}
					}
				})
			}
			ackOK := c.hasHigh && c.st.CanPushC2S()
			if tail {
				ackOK = ackOK && npend == 0 && (!c.everAcked || now-c.lastAckAt >= time.Second)
			} else if w.cfg.NoAck[sh.name()] {
				ackOK = false
			}
			if ackOK && !closing {
				add("tgt-ack:"+c.st.Name, 5, false, func() { w.tgtAck(c) })
			}
			if w.prof.Faults && w.faultDue() {
				fw := 1
				if w.prof.BiasFaults && w.tgtInFlight(c) {
					fw = 3
				}
				if w.prof.Multi && w.intraInFlightTo(c.inst) {
					// a task is on its intra-proxy hop towards this stream's instance right now
					fw = 4
				}
				add("FAULT tgt-cancel:"+c.st.Name, fw, true, func() { w.fault("tgt-cancel"); c.cancel() })
				add("FAULT tgt-break:"+c.st.Name, fw, true, func() {
					w.fault("tgt-break")
					c.st.Break(status.Error(codes.Unavailable, "transport is closing"))
				})
				add("FAULT tgt-closesend:"+c.st.Name, 1, true, func() { w.fault("tgt-closesend"); c.st.HarnessCloseSend() })
			}
			if closing {
				// also a stream the client has half-closed: a client whose stream is not ended by the
				// server gives up by cancelling it
				add("close tgt:"+c.st.Name, 5, false, func() { c.cancel() })
			}
		}
		// --- source role ---
		if w.emitsTasks(sh.cluster) && len(sh.log) < w.cfg.MaxTasks && w.phase == 0 && w.s.Stats.Decisions >= w.cfg.LateGen[sh.name()] {
			add("gen:"+sh.name(), 3, false, func() { w.genTasks(sh) })
		}
		if sc := sh.src; sc != nil && !sc.closed {
			if sc.st.ClientClosedSend && !sc.st.ServerEnded {
				// the cluster's sender ends the stream once the proxy has half-closed it
				add("src-end:"+sc.st.Name, 8, false, func() { sc.closed = true; sc.st.ServerFinish(nil) })
			}
			if sc.st.Dead() {
				sc.closed = true
			}
			if sc.alive() && sc.st.CanPushS2C() && !closing {
				un := len(sc.unsent())
				if un > 0 {
					add("src-send:"+sc.st.Name, 6, false, func() { w.srcSend(sc, false) })
				} else if w.emitsTasks(sh.cluster) || true {
					// periodic watermark; periods differ slightly per shard (independent clusters'
					// timers are never phase-locked, and a phase-locked schedule could starve one
					// source's broadcasts on a full queue forever, which is not what C03 is about)
					period := time.Second + time.Duration(int(sh.cluster)*7+int(sh.id)*3)*13*time.Millisecond
					wmOK := sc.lastHighSent != sh.nextID || now-sc.lastWmAt >= period
					if wmOK {
						wt := 3
						if sc.lastHighSent == sh.nextID {
							wt = 1
						}
						add("src-watermark:"+sc.st.Name, wt, false, func() { w.srcSend(sc, true) })
					}
				}
			}
			if sc.st.LenC2S() > 0 {
				add("src-read-ack:"+sc.st.Name, 6, false, func() { w.srcReadAck(sc) })
			}
			if w.prof.Faults && w.faultDue() && sc.alive() {
				fw := 1
				if w.prof.BiasFaults && w.srcInFlight(sh) {
					fw = 6
				}
				add("FAULT src-eof:"+sc.st.Name, fw, true, func() { w.fault("src-eof"); sc.closed = true; sc.st.ServerFinish(nil) })
				add("FAULT src-error:"+sc.st.Name, fw, true, func() {
					w.fault("src-error")
					sc.closed = true
					sc.st.ServerFinish(status.Error(codes.Unavailable, "shard closed"))
				})
				add("FAULT src-break:"+sc.st.Name, fw, true, func() {
					w.fault("src-break")
					sc.closed = true
					sc.st.Break(status.Error(codes.Unavailable, "transport is closing"))
				})
			}
		}
	}
	return acts
}

// srcInFlight: some live target stream holds a task of this source that it has not confirmed yet.
func (w *RouteWorld) srcInFlight(sh *shardModel) bool {
	for _, o := range w.shards[other(sh.cluster)] {
		for _, tc := range o.allTgt {
			if tc.diedAt != 0 {
				continue
			}
			for _, t := range tc.tracked {
				if t.key.src == sh.sid() && !w.confirmed[t.key] {
					return true
				}
			}
		}
	}
	return false
}

// intraInFlightTo: a task-bearing message was written within the last few decisions to an
// intra-proxy stream that the given instance opened (i.e. it is travelling towards it).
func (w *RouteWorld) intraInFlightTo(in *rInst) bool {
	for st, at := range w.intraWroteAt {
		if w.s.Stats.Decisions-at < 40 && !st.Dead() && w.intraEnds[st][0] == in.name {
			return true
		}
	}
	return false
}

// tgtInFlight: the target stream holds a task it has not confirmed, or the proxy has put one on it that it has not received.
func (w *RouteWorld) tgtInFlight(c *tgtConn) bool {
	if len(c.sentTasks) > len(c.tracked) {
		return true
	}
	for _, t := range c.tracked {
		if t.key != (taskKey{}) && !w.confirmed[t.key] {
			return true
		}
	}
	return false
}

// crash: the instance disappears without a word. Every connection it had breaks, its
// memberlist node stops answering (the others find out through their failure detectors),
// it can no longer open anything. Its goroutines keep running in isolation (a zombie that
// nobody can hear); the oracles ignore it from here on.
func (w *RouteWorld) crash(in *rInst) {
	w.fault("instance-crash")
	in.dead = true
	w.s.Log("instance %s crashes", in.name)
	broken := status.Error(codes.Unavailable, "connection reset by peer")
	for _, sh := range w.allShards() {
		for _, tc := range sh.allTgt {
			if tc.inst == in && !tc.st.Dead() {
				tc.st.Break(broken)
			}
		}
		if sc := sh.src; sc != nil && sc.inst == in && !sc.closed {
			sc.closed = true
			sc.st.Break(broken)
		}
	}
	for _, st := range w.intraStreams {
		if e := w.intraEnds[st]; (e[0] == in.name || e[1] == in.name) && !st.Dead() {
			st.Break(broken)
		}
	}
	if w.deadStarts == nil {
		w.deadStarts = map[string]bool{}
	}
	w.deadStarts[in.startTask] = true
	w.mlnet.Crash(in.name)
	for _, o := range w.insts {
		if o != in && !o.dead {
			w.pendingDead = append(w.pendingDead, [2]string{o.name, in.name})
		}
	}
}

// faultDue: the next fault of the run's budget may fire now.
func (w *RouteWorld) faultDue() bool {
	if w.faultsLeft <= 0 || w.phase != 0 {
		return false
	}
	k := w.cfg.FaultBudget - w.faultsLeft
	return k >= len(w.cfg.FaultAt) || w.s.Stats.Decisions >= w.cfg.FaultAt[k]
}

func (w *RouteWorld) fault(kind string) {
	w.faultsLeft--
	w.faults[kind]++
	w.anyFault = true
}

func (w *RouteWorld) NextWake() time.Time {
	if w.phase == 1 {
		// periodic acks / watermarks: at most one second away
		return time.Now().Add(time.Second)
	}
	return time.Time{}
}

func (w *RouteWorld) Done() bool {
	switch w.phase {
	case 0:
		return w.s.Stats.Decisions >= w.cfg.ChaosBudget
	case 1:
		return w.tailSatisfied()
	default:
		return w.s.NumLive() == 0
	}
}

// tailSatisfied: every source has received an ack equal to its final high watermark.
func (w *RouteWorld) tailSatisfied() bool {
	// a stream opened in the last decisions of the chaos phase must get to run its handler
	// before anything is judged: the fair tail lasts at least two virtual seconds
	if w.phase == 1 && w.s.Now()-w.tailStart < 2*time.Second {
		return false
	}
	for _, sh := range w.allShards() {
		sc := sh.src
		if sc == nil || !sc.alive() {
			return false
		}
		n := len(sc.acks)
		if n == 0 || sc.acks[n-1] != sh.nextID {
			return false
		}
	}
	return true
}

func (w *RouteWorld) tailStatus() string {
	var sb strings.Builder
	for _, sh := range w.allShards() {
		sc := sh.src
		if sc == nil {
			fmt.Fprintf(&sb, "%s: no source stream; ", sh.name())
			continue
		}
		last := int64(-1)
		if n := len(sc.acks); n > 0 {
			last = sc.acks[n-1]
		}
		fmt.Fprintf(&sb, "%s: final high %d, last ack %d, alive=%v; ", sh.name(), sh.nextID, last, sc.alive())
	}
	return sb.String()
}

// endChecks runs the end-of-run oracles of the no-failure profiles (C02 conservation).
func (w *RouteWorld) endChecks() {
	for _, sh := range w.allShards() {
		for _, c := range sh.allTgt {
			// the tail is quiescent: the proxy has finished processing the last ack it read
			for _, r := range c.rounds {
				w.checkRoundPhase(c, r, true)
			}
		}
	}
	// whatever has failed: the proxy never puts a task on target streams more often than it has
	// read it from the source (a re-read after a source restart may be forwarded again; a task
	// read once and forwarded twice is a duplicate of the proxy's own making)
	for _, sh := range w.allShards() {
		for _, t := range sh.log {
			k := taskKey{sh.sid(), t.id}
			if n := len(w.deliveries[k]); n > 0 && n > w.readCount[k] {
				var where []string
				for _, d := range w.deliveries[k] {
					where = append(where, fmt.Sprintf("%s as proxy id %d", d.conn.st.Name, d.proxyID))
				}
				w.violate("C02", "duplicated-by-proxy", "task %s/%d was read from its source %d time(s) but put on target streams %d times: %s", sidStr(k.src), k.id, w.readCount[k], n, strings.Join(where, "; "))
				break
			}
		}
	}
	if !w.prof.CheckC02End || w.anyFault {
		return
	}
	if w.prof.Multi && !w.tailOK {
		// the tail did not complete, so "never reached a target" cannot be told from "not yet":
		// what can be said is that a task the proxy had read when the tail began was not put on
		// any target stream during 120 virtual seconds of fault-free fair execution with state
		// merges every 30 s - C02's "is sent ... on the stream of the target shard that owns it"
		for _, sh := range w.allShards() {
			for _, t := range sh.log {
				k := taskKey{sh.sid(), t.id}
				if w.toProxy[k] && len(w.deliveries[k]) == 0 {
					w.violate("C02", "not-delivered", "task %s/%d was read by the proxy but was not delivered to any target stream within %v of fault-free fair execution", sidStr(k.src), k.id, w.s.Now()-w.tailStart)
					return
				}
			}
		}
		return
	}
	for _, sh := range w.allShards() {
		for _, t := range sh.log {
			k := taskKey{sh.sid(), t.id}
			ds := w.deliveries[k]
			if w.toProxy[k] && len(ds) == 0 {
				w.violate("C02", "lost", "task %s/%d was read by the proxy but never reached a target stream", sidStr(k.src), k.id)
			}
			if len(ds) > 1 {
				w.violate("C02", "duplicated", "task %s/%d reached target streams %d times", sidStr(k.src), k.id, len(ds))
			}
		}
	}
	// per (source, target stream) order
	type pair struct {
		src ShardID
		c   *tgtConn
	}
	last := map[pair]int64{}
	for _, sh := range w.allShards() {
		for _, c := range sh.allTgt {
			for _, t := range c.tracked {
				if t.key == (taskKey{}) {
					continue
				}
				p := pair{t.key.src, c}
				if prev, ok := last[p]; ok && t.key.id <= prev {
					w.violate("C02", "order", "tasks of source %s reach %s out of source order: %d after %d", sidStr(t.key.src), c.st.Name, t.key.id, prev)
				}
				last[p] = t.key.id
			}
		}
	}
}

// registryChecks (C08): after the churn has stopped and a fault-free fair tail has run, every
// shard whose newest stream incarnation is alive must be registered exactly through it: it is
// a local shard, its delivery channel and (for the stream the proxy opened towards it) its
// acknowledgement channel are registered, and traffic actually flows through it (the tail's
// end-to-end acknowledgement reached every source).
func (w *RouteWorld) registryChecks() {
	if !w.prof.Cleanup {
		return
	}
	locals := map[*rInst]map[string]ShardID{}
	cis := map[*rInst]proxy.ChannelDebugInfo{}
	done := false
	w.s.Spawn("inspect-registries", func() {
		for _, in := range w.insts {
			if in.dead {
				continue
			}
			locals[in] = in.sm.GetLocalShards()
			cis[in] = in.sm.GetChannelInfo()
		}
		done = true
	})
	w.s.ExtendBudget(100000, 30*time.Second)
	w.s.Run(untilWorld{w, func() bool { return done }})
	if !done {
		w.violate("C08", "inspect-stuck", "registry inspection did not complete; live tasks %v", w.s.LiveTasks())
		return
	}
	for _, sh := range w.allShards() {
		c := sh.tgt
		if c == nil || !c.usable() || c.st.ClientClosedSend {
			continue
		}
		key := fmt.Sprintf("%d:%d", sh.cluster, sh.id)
		long := fmt.Sprintf("(id: %d, shard: %d)", sh.cluster, sh.id)
		// the registries of the instance the live stream is connected to
		local, ci := locals[c.inst], cis[c.inst]
		if _, ok := local[key]; !ok {
			w.violateSig("C08", "live-stream-not-registered", w.staleRegisteredLate(sh, "shard"), "shard %s has a live stream (%s, the newest of %d incarnations) but is not among the local shards %v", sh.name(), c.st.Name, len(sh.allTgt), sortedKeysOf(local))
		}
		if _, ok := ci.RemoteSendChannels[long]; !ok {
			w.violateSig("C08", "live-stream-no-delivery-channel", w.staleRegisteredLate(sh, "send"), "shard %s has a live stream (%s) but no delivery channel is registered for it (registered: %v)", sh.name(), c.st.Name, sortedKeysInt(ci.RemoteSendChannels))
		}
		if sc := sh.src; sc != nil && sc.alive() {
			if _, ok := ci.LocalAckChannels[long]; !ok {
				w.violateSig("C08", "live-stream-no-ack-channel", w.staleRegisteredLate(sh, "ack"), "the proxy holds a live source stream %s for shard %s but no acknowledgement channel is registered for it", sc.st.Name, sh.name())
			}
		}
	}
	if !w.tailOK {
		sig := w.trafficSig()
		// the same observation under C03's liveness clause: once the faults have stopped the
		// premise (targets acknowledge, sources send their watermark) holds again
		if w.anyFault {
			w.violateSig("C03", "liveness-after-faults", sig, "after the stream faults stopped, %v of fault-free fair execution did not bring every source an acknowledgement of its final high watermark: %s", w.s.Now()-w.tailStart, w.tailStatus())
		}
		w.violateSig("C08", "traffic-does-not-flow", sig, "after the churn stopped, %v of fault-free fair execution did not bring every source an acknowledgement of its final high watermark through the newest incarnations: %s; live tasks: %v", w.s.Now()-w.tailStart, w.tailStatus(), w.s.LiveTasks())
	}
}

// trafficSig classifies a tail that did not complete after faults by the two known causes.
func (w *RouteWorld) trafficSig() string {
	sig := ""
	for _, sh := range w.allShards() {
		for _, kind := range []string{"shard", "send", "ack"} {
			if s := w.staleRegisteredLate(sh, kind); s != "" {
				sig = s
			}
		}
	}
	// a target stream's ack loop sits in DeliverAckToShardOwner, blocked on the full queue of a
	// source receiver that has ended (it only selects on its own shutdown signal)
	for _, lt := range w.s.LiveTasks() {
		if strings.Contains(lt, "@DeliverAckToShardOwner[blocked]") {
			sig = "ack-hand-off-blocked-on-ended-receiver"
		}
	}
	return sig
}

type untilWorld struct {
	w    *RouteWorld
	done func() bool
}

func (u untilWorld) Actions() []simrt.Action { return u.w.Actions() }
func (u untilWorld) NextWake() time.Time     { return u.w.NextWake() }
func (u untilWorld) Done() bool              { return u.done() }

func sortedKeysOf(m map[string]ShardID) []string {
	var ks []string
	for k := range m {
		ks = append(ks, k)
	}
	sort.Strings(ks)
	return ks
}

func sortedKeysInt(m map[string]int) []string {
	var ks []string
	for k := range m {
		ks = append(ks, k)
	}
	sort.Strings(ks)
	return ks
}

// cleanupChecks: after every stream has ended nothing may remain registered (C08).
func (w *RouteWorld) cleanupChecks(live []string) {
	if !w.prof.Cleanup {
		return
	}
	for _, in := range w.insts {
		if in.dead {
			continue // a crashed instance is gone; whatever its zombie still holds is nobody's concern
		}
		if ls := in.sm.GetLocalShards(); len(ls) != 0 {
			w.violate("C08", "leftover-shard", "%s: local shards still registered after all streams ended: %v", in.name, ls)
		}
		ci := in.sm.GetChannelInfo()
		if ci.TotalSendChannels != 0 || ci.TotalAckChannels != 0 {
			w.violate("C08", "leftover-channel", "%s: channels still registered after all streams ended: send=%v ack=%v", in.name, ci.RemoteSendChannels, ci.LocalAckChannels)
		}
		for _, sh := range w.allShards() {
			if r, ok := in.sm.GetActiveReceiver(sh.sid()); ok {
				w.violate("C08", "leftover-receiver", "%s: active receiver (%T) still registered for %s", in.name, r, sh.name())
			}
			if _, ok := in.sm.GetLocalReceiverCancelFunc(sh.sid()); ok {
				w.violate("C08", "leftover-cancel", "%s: receiver cancel func still registered for %s", in.name, sh.name())
			}
		}
		if w.prof.Multi {
			snd, rcv := proxy.VsimIntraLinks(in.sm)
			sort.Strings(snd)
			sort.Strings(rcv)
			if len(snd) != 0 || len(rcv) != 0 {
				w.violate("C08", "leftover-intra-link", "%s: intra-proxy links still registered after all streams ended and the instances reconciled: senders %v receivers %v", in.name, snd, rcv)
			}
		}
	}
	if w.prof.Multi {
		var open []string
		for _, st := range w.intraStreams {
			if !st.Dead() {
				open = append(open, st.Name)
			}
		}
		if len(open) > 0 {
			w.violate("C08", "leftover-intra-stream", "intra-proxy streams still open after all streams ended and the instances reconciled: %v", open)
		}
		// tasks that live as long as the instance does (reconcile loop, join loop) are not workers of a stream
		var rest []string
		for _, t := range live {
			if strings.Contains(t, "go@Start") || strings.Contains(t, "startJoinLoop") || strings.Contains(t, "joinLoop") {
				continue
			}
			rest = append(rest, t)
		}
		live = rest
	}
	if len(live) > 0 && !w.prof.Crash {
		w.violate("C08", "stuck-worker", "tasks still alive after all streams ended: %v", live)
	}
}

// recSM decorates the real ShardManager (it is an interface) to observe ack translations.
type recSM struct {
	proxy.ShardManager
	w    *RouteWorld
	inst string // name of the instance whose shard manager this is
}

// callerIncarnation names the target stream whose handler the calling task descends from.
func callerIncarnation() string {
	for _, n := range simrt.CurrentLineage() {
		if strings.HasPrefix(n, "handler:") {
			return strings.TrimPrefix(n, "handler:")
		}
	}
	return ""
}

func (r recSM) note(kind string, sh ShardID) {
	kind += "@" + r.inst // registrations are per instance
	if r.w.lastReg == nil {
		r.w.lastReg = map[string]map[ShardID]string{}
	}
	if r.w.lastReg[kind] == nil {
		r.w.lastReg[kind] = map[ShardID]string{}
	}
	r.w.lastReg[kind][sh] = callerIncarnation()
}

func (r recSM) RegisterShard(sh ShardID) time.Time {
	t := r.ShardManager.RegisterShard(sh)
	if r.w.lastRegAt == nil {
		r.w.lastRegAt = map[string]time.Time{}
	}
	// the registration with the latest timestamp is the one that is in effect (per instance)
	rk := r.inst + "|" + sidStr(sh)
	// across instances the claim with the latest registration time evicts the others
	if last, ok := r.w.lastRegAt["*|"+sidStr(sh)]; !ok || t.After(last) {
		r.w.lastRegAt["*|"+sidStr(sh)] = t
		if r.w.lastReg == nil {
			r.w.lastReg = map[string]map[ShardID]string{}
		}
		if r.w.lastReg["shard@*"] == nil {
			r.w.lastReg["shard@*"] = map[ShardID]string{}
		}
		r.w.lastReg["shard@*"][sh] = callerIncarnation()
	}
	if last, ok := r.w.lastRegAt[rk]; !ok || t.After(last) {
		r.w.lastRegAt[rk] = t
		r.note("shard", sh)
	} else if t.Equal(last) {
		r.w.s.Probe("registration-timestamp-tie")
	}
	r.w.s.Log("RegisterShard %s by %s at %v", sidStr(sh), callerIncarnation(), t.Sub(time.Unix(946684800, 0)))
	return t
}

func (r recSM) UnregisterShard(sh ShardID, at time.Time) {
	r.w.s.Log("UnregisterShard %s by %s expecting %v", sidStr(sh), callerIncarnation(), at.Sub(time.Unix(946684800, 0)))
	r.ShardManager.UnregisterShard(sh, at)
}

func (r recSM) SetRemoteSendChan(sh ShardID, ch chan proxy.RoutedMessage) {
	r.ShardManager.SetRemoteSendChan(sh, ch)
	r.note("send", sh) // no scheduling point between the write and the return: return order = write order
}

func (r recSM) SetLocalAckChan(sh ShardID, ch chan proxy.RoutedAck) {
	r.ShardManager.SetLocalAckChan(sh, ch)
	r.note("ack", sh)
}

func (r recSM) DeliverAckToShardOwner(src ShardID, ra *proxy.RoutedAck, sc channel.ShutdownOnce, lg log.Logger, ack int64, fwd bool) bool {
	// the receiving side may act on the ack before this call returns: note the attempt first
	if tsh := r.w.shard(ra.TargetShard); tsh != nil {
		// the stream whose own ack loop is translating (it may be an older incarnation than the newest)
		inc := callerIncarnation()
		for _, tc := range tsh.allTgt {
			if tc.st.Name != inc {
				continue
			}
			if n := len(tc.rounds); n > 0 {
				if tc.rounds[n-1].attempted == nil {
					tc.rounds[n-1].attempted = map[ShardID]int64{}
				}
				tc.rounds[n-1].attempted[src] = ack
			}
		}
	}
	ok := r.ShardManager.DeliverAckToShardOwner(src, ra, sc, lg, ack, fwd)
	r.w.s.Log("translate: stream of %s -> source %s value %d delivered=%v", sidStr(ra.TargetShard), sidStr(src), ack, ok)
	if ok {
		// a translation belongs to the target stream whose own ack loop made it; the same ack
		// passes through this call once more on the source's instance when it has travelled over
		// an intra-proxy stream (the caller is then that stream's handler), which is not a translation
		if tsh := r.w.shard(ra.TargetShard); tsh != nil && tsh.tgt != nil && callerIncarnation() == tsh.tgt.st.Name {
			if n := len(tsh.tgt.rounds); n > 0 {
				tsh.tgt.rounds[n-1].delivered[src] = ack
			}
		}
	}
	return ok
}

// checkRound: C05 in-system. For the ack at proxy watermark w on stream c, every source
// with an outstanding task entry at a proxy id in (prevW, w] must have been told a value
// >= the largest original id among those entries, and every value told must be an
// original id of that source's entries <= w on this stream or a high watermark that
// source has sent (synthetic watermark entries are invisible from outside), or repeat
// the previous value (documented fallback when nothing new is covered).
func (w *RouteWorld) checkRound(c *tgtConn, r *ackRound) {
	w.checkRoundPhase(c, r, false)
}

// checkRoundPhase: the "required" half runs as soon as the proxy has finished the round;
// the "allowed" half runs at the quiescent end of the run, when every entry the proxy ever
// appended has also been put on the stream (an entry appended but not yet sent is invisible).
func (w *RouteWorld) checkRoundPhase(c *tgtConn, r *ackRound, final bool) {
	if !w.prof.CheckC05 || w.anyFault {
		return
	}
	if !final && r.checked {
		return
	}
	// a round that was never closed by a following ack may still be in progress inside the
	// proxy (e.g. blocked on a full ack queue): its "required" half cannot be judged
	first := !r.checked && !final
	r.checked = true
	if len(c.sh.allTgt) != 1 {
		return
	}
	need := map[ShardID]int64{}
	own := map[ShardID]map[int64]bool{}
	// allowed values: anything the proxy has put on the stream at a proxy id <= w by now
	// (an entry is appended before it is sent, so this is a superset of what the table held)
	for _, t := range c.sentTasks {
		if t.key == (taskKey{}) || t.proxyID > r.w {
			continue
		}
		if own[t.key.src] == nil {
			own[t.key.src] = map[int64]bool{}
		}
		own[t.key.src][t.key.id] = true
	}
	// required: what the target had accepted when it emitted the ack
	for i, t := range c.tracked {
		if i >= r.nTracked || t.key == (taskKey{}) || t.proxyID > r.w {
			continue
		}
		// every task the target held at a proxy id <= w when it emitted the ack - not only those
		// above the previous ack: an entry appended at exactly the previous watermark after that
		// ack was aggregated belongs to no interval (prev, w] and must not fall through
		if cur, ok := need[t.key.src]; !ok || t.key.id > cur {
			need[t.key.src] = t.key.id
		}
	}
	prevVals := map[ShardID]int64{}
	for _, pr := range c.rounds {
		if pr == r {
			break
		}
		for s, v := range pr.delivered {
			prevVals[s] = v
		}
	}
	if !first {
		need = nil
	}
	// what each source has been told on this stream up to and including this round
	told := map[ShardID]int64{}
	for _, pr := range c.rounds {
		for s, v := range pr.delivered {
			if v > told[s] {
				told[s] = v
			}
		}
		if pr == r {
			break
		}
	}
	for src, m := range need {
		v, ok := told[src]
		if !ok {
			hist := ""
			for _, pr := range c.rounds {
				hist += fmt.Sprintf("[w=%d prev=%d n=%d %v]", pr.w, pr.prevW, pr.nTracked, pr.delivered)
			}
			w.violate("C05", "missing-translation", "ack %d on %s covers task %d of source %s (proxy ids in (%d,%d]) but nothing was translated for that source (translated: %v) rounds=%s emitted=%v", r.w, c.st.Name, m, sidStr(src), r.prevW, r.w, r.delivered, hist, c.acksEmitted)
		} else if v < m {
			w.violate("C05", "low-translation", "ack %d on %s translated to %d for source %s, but its largest covered original id is %d", r.w, c.st.Name, v, sidStr(src), m)
		}
	}
	if !final {
		return
	}
	for src, v := range r.delivered {
		ssh := w.shard(src)
		if ssh == nil {
			w.violate("C05", "foreign-translation", "ack %d on %s translated for unknown source %s", r.w, c.st.Name, sidStr(src))
			continue
		}
		if own[src][v] || ssh.wmHighs[v] {
			continue
		}
		if pv, ok := prevVals[src]; ok && pv == v {
			continue
		}
		w.violate("C05", "foreign-translation", "ack %d on %s translated to %d for source %s, which is neither an original id of that source at a proxy id <= %d on this stream nor a watermark it sent", r.w, c.st.Name, v, sidStr(src), r.w)
	}
}

var errBudget = errors.New("budget")

// RunRoute executes one complete ROUTE run (chaos, tail, close) and returns its result.
func RunRoute(s *simrt.Sim, prof RouteProfile) *Result {
	w := NewRouteWorld(s, prof)
	res := &Result{World: "ROUTE", Profile: prof.Name, Config: w.cfg}
	finish := func() *Result {
		res.Violations = w.viol
		res.Faults = w.faults
		res.Crash = s.Crashed()
		if res.Crash != nil {
			w.violate("C08", "crash", "unrecovered panic in %s: %s", res.Crash.Task, res.Crash.Value)
			if prof.BadMetadata {
				w.violate("C20", "crash", "unrecovered panic in %s: %s", res.Crash.Task, res.Crash.Value)
			}
			res.Violations = w.viol
		}
		res.Nontrivial = w.msgsToTgt > 0 && w.acksToSrc > 0 && (!prof.Faults || w.anyFault)
		if s.Stats.SpinReliefs > 0 {
			s.Probe("spin-relief-in-tail")
		}
		return res
	}
	// phase 0: chaos
	s.Run(w)
	if s.Crashed() != nil {
		return finish()
	}
	// phase 1: fault-free fair tail; every target connected, completing and acking on its
	// 1 s timer, every source sending its 1 s watermark
	w.phase = 1
	w.tailStart = s.Now()
	s.SetFair(true)
	// a goroutine of the proxy that spins without ever blocking must not stop the clock and
	// the clusters: every 1000 task steps without either, one environment step and 1 virtual s
	s.SetSpinRelief(1000, time.Second)
	s.ExtendBudget(400000, 120*time.Second)
	s.Run(w)
	if s.Crashed() != nil {
		return finish()
	}
	w.tailOK = w.tailSatisfied()
	if prof.Liveness && !w.anyFault && !w.tailOK {
		w.violate("C03", "liveness", "after %v of fault-free fair execution not every source was acked up to its final high watermark: %s", s.Now()-w.tailStart, w.tailStatus())
	}
	if prof.BadMetadata && !w.anyFault && !w.tailOK {
		var mds []string
		for _, b := range w.badOpens {
			mds = append(mds, fmt.Sprintf("%s:%v(done=%v err=%v)", b.name, b.md, b.done, b.err))
		}
		w.violate("C20", "later-streams-not-served", "after streams were opened with hostile metadata %v, %v of fault-free fair execution did not serve the regular streams: %s; live tasks: %v", mds, s.Now()-w.tailStart, w.tailStatus(), s.LiveTasks())
	}
	w.endChecks()
	w.registryChecks()
	// phase 2: close everything
	w.phase = 2
	s.ExtendBudget(200000, 60*time.Second)
	s.Run(w)
	live := s.LiveTasks()
	if s.Crashed() == nil {
		w.cleanupChecks(live)
	}
	// finally end the proxy's lifetime so that registered AfterFunc callbacks are released
	w.cancelAll()
	s.ExtendBudget(200000, 60*time.Second)
	s.Run(w)
	res.Live = s.LiveTasks()
	return finish()
}
