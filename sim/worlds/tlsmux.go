package worlds

import (
	"crypto/tls"
	"crypto/x509"
	"fmt"
	"net"
	"os"
	"path/filepath"
	"time"

	"github.com/temporalio/s2s-proxy/encryption"

	"vsim/seam"
	"vsim/simrt"
)

// ---------------------------------------------------------------------------
// C19 at the real mux endpoints (profile C19mux): the MUX world with TLS configured on the
// connection. The TLS wrapping is done by the proxy's own NewMuxReceiverProvider /
// NewMuxEstablisherProvider (transport/mux/receiver.go, establisher.go), not by the
// harness; every connection the peer makes or accepts presents a credential of a drawn
// kind. A connection counts as admitted when the proxy has had it registered as a mux
// session (it passed the TLS handshake, the yamux handshake and the provider's ping).
// ---------------------------------------------------------------------------

type muxTLSCase struct {
	Tag       string `json:"conn"`
	Kind      string `json:"peer_kind"`
	Authentic bool   `json:"authentic"`
	Note      string `json:"verify_note,omitempty"`
	Admitted  bool   `json:"admitted"`
	leaf      *x509.Certificate
}

type muxTLS struct {
	role     string
	verify   bool
	dir      string
	ca, oca  *tlsCA
	proxyCfg encryption.TLSConfig
	cases    []*muxTLSCase
}

func newMuxTLS(s *simrt.Sim, role string) (*muxTLS, error) {
	t := &muxTLS{role: role, verify: s.Draw(6) != 5}
	var err error
	if t.dir, err = os.MkdirTemp("", "vsim-tlsmux-"); err != nil {
		return nil, err
	}
	now := time.Now()
	if t.ca, err = newCA("configured-ca", now); err != nil {
		return nil, err
	}
	t.oca, _ = newCA("foreign-ca", now)
	caPath := filepath.Join(t.dir, "ca.pem")
	_ = os.WriteFile(caPath, t.ca.pem, 0o600)
	_, _, certPEM, keyPEM, err := issue(t.ca, "proxy", []string{tlsServerName}, now.Add(-time.Hour), now.Add(30*24*time.Hour),
		[]x509.ExtKeyUsage{x509.ExtKeyUsageServerAuth, x509.ExtKeyUsageClientAuth})
	if err != nil {
		return nil, err
	}
	own, key := filepath.Join(t.dir, "own.pem"), filepath.Join(t.dir, "own.key")
	_ = os.WriteFile(own, certPEM, 0o600)
	_ = os.WriteFile(key, keyPEM, 0o600)
	t.proxyCfg = encryption.TLSConfig{CertificatePath: own, KeyPath: key, RemoteCAPath: caPath, SkipCAVerification: !t.verify}
	if role == "client" {
		t.proxyCfg.CAServerName = tlsServerName
	}
	return t, nil
}

// wrap gives the peer's end of a connection its TLS layer with a freshly drawn credential.
// Every kind is monotone in time (an expired certificate stays expired, a valid one outlives
// the run), so the verdict taken at issuance holds at the handshake.
func (t *muxTLS) wrap(s *simrt.Sim, conn net.Conn, tag string, peerIsTLSClient bool) net.Conn {
	kinds := []string{"valid", "valid", "expired-30s-ago", "expired-4min-ago", "expired-1h-ago", "not-valid-for-a-day", "self-signed", "other-ca", "wrong-usage"}
	if peerIsTLSClient {
		kinds = append(kinds, "none")
	} else {
		kinds = append(kinds, "wrong-name")
	}
	c := &muxTLSCase{Tag: tag, Kind: kinds[s.Draw(len(kinds))]}
	now := time.Now()
	usage := []x509.ExtKeyUsage{x509.ExtKeyUsageServerAuth}
	if peerIsTLSClient {
		usage = []x509.ExtKeyUsage{x509.ExtKeyUsageClientAuth}
	}
	names := []string{tlsServerName}
	var cert *tls.Certificate
	var err error
	switch c.Kind {
	case "valid":
		cert, c.leaf, _, _, err = issue(t.ca, "peer", names, now.Add(-time.Hour), now.Add(24*time.Hour), usage)
	case "expired-30s-ago":
		cert, c.leaf, _, _, err = issue(t.ca, "peer", names, now.Add(-48*time.Hour), now.Add(-30*time.Second), usage)
	case "expired-4min-ago":
		cert, c.leaf, _, _, err = issue(t.ca, "peer", names, now.Add(-48*time.Hour), now.Add(-4*time.Minute), usage)
	case "expired-1h-ago":
		cert, c.leaf, _, _, err = issue(t.ca, "peer", names, now.Add(-48*time.Hour), now.Add(-time.Hour), usage)
	case "not-valid-for-a-day":
		cert, c.leaf, _, _, err = issue(t.ca, "peer", names, now.Add(24*time.Hour), now.Add(48*time.Hour), usage)
	case "self-signed":
		cert, c.leaf, _, _, err = issue(nil, "peer", names, now.Add(-time.Hour), now.Add(24*time.Hour), usage)
	case "other-ca":
		cert, c.leaf, _, _, err = issue(t.oca, "peer", names, now.Add(-time.Hour), now.Add(24*time.Hour), usage)
	case "wrong-usage":
		wrong := []x509.ExtKeyUsage{x509.ExtKeyUsageClientAuth}
		if peerIsTLSClient {
			wrong = []x509.ExtKeyUsage{x509.ExtKeyUsageServerAuth}
		}
		cert, c.leaf, _, _, err = issue(t.ca, "peer", names, now.Add(-time.Hour), now.Add(24*time.Hour), wrong)
	case "wrong-name":
		cert, c.leaf, _, _, err = issue(t.ca, "peer", []string{"someone-else.example"}, now.Add(-time.Hour), now.Add(24*time.Hour), usage)
	}
	if err != nil {
		c.Note = "credential generation failed: " + err.Error()
	}
	// reference verdict: independent verification against the configured CA
	if c.leaf != nil {
		pool := x509.NewCertPool()
		pool.AddCert(t.ca.cert)
		opts := x509.VerifyOptions{Roots: pool, CurrentTime: now, KeyUsages: usage}
		if !peerIsTLSClient {
			opts.DNSName = tlsServerName
		}
		if _, verr := c.leaf.Verify(opts); verr == nil {
			c.Authentic = true
		} else {
			c.Note = verr.Error()
		}
	} else {
		c.Note = "no certificate presented"
	}
	t.cases = append(t.cases, c)
	s.Log("tls case %s: %s authentic=%v", tag, c.Kind, c.Authentic)
	cfg := &tls.Config{InsecureSkipVerify: true, MinVersion: tls.VersionTLS12}
	if peerIsTLSClient {
		if cert != nil {
			pc := cert
			cfg.GetClientCertificate = func(*tls.CertificateRequestInfo) (*tls.Certificate, error) { return pc, nil }
		} else {
			cfg.GetClientCertificate = func(*tls.CertificateRequestInfo) (*tls.Certificate, error) { return &tls.Certificate{}, nil }
		}
		return seam.TLSClient(conn, cfg)
	}
	if cert != nil {
		cfg.Certificates = []tls.Certificate{*cert}
	}
	return seam.TLSServer(conn, cfg)
}

// judge: with verification configured, no connection whose credential does not verify may
// ever have been registered as a session.
func (t *muxTLS) judge(w *MuxWorld) {
	defer os.RemoveAll(t.dir)
	for _, c := range t.cases {
		c.Admitted = w.everReg[c.Tag]
		if t.verify && !c.Authentic && c.Admitted {
			w.violate("C19", "admitted-unauthenticated-peer", "mux endpoint (proxy as TLS %s, CA verification configured) registered a session over connection %s whose peer presented a '%s' credential (%s)",
				map[string]string{"client": "client", "server": "server"}[t.role], c.Tag, c.Kind, c.Note)
		}
	}
}

var _ = fmt.Sprint
