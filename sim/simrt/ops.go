package simrt

import (
	"fmt"
	"reflect"
	"sort"
	"sync"
	"sync/atomic"
	"time"
	"unsafe"
)

// ---- goroutines ----

// Go replaces a `go` statement.
func Go(site int, f func()) {
	s := cur.Load()
	if s == nil || atomic.LoadInt32(&s.stopping) == 1 {
		go f()
		return
	}
	s.spawn(SiteName(site), site, f)
}

// Async wraps a callback that the standard library will run on a goroutine of its own
// (context.AfterFunc): the goroutine is adopted as a task when it starts.
func Async(site int, f func()) func() {
	// The task id is reserved now, by the registering task, so that ids do not depend on the
	// order in which the runtime starts the callback goroutines later.
	var reserved *Task
	if s := cur.Load(); s != nil && atomic.LoadInt32(&s.stopping) == 0 {
		reserved = s.newTask("async:"+SiteName(site), site)
		atomic.StoreInt32(&reserved.state, stUnborn)
	}
	return func() {
		s := cur.Load()
		if s == nil || atomic.LoadInt32(&s.stopping) == 1 || reserved == nil {
			f()
			return
		}
		if s.self() != nil {
			// already a task (callback invoked synchronously): just run
			f()
			return
		}
		s.runTask(reserved, f)
	}
}

// Yield is a plain scheduling point.
func Yield(site int) {
	s, t := ctx()
	if t == nil {
		return
	}
	s.yield(t, site)
}

// AfterBlock re-synchronises a task after an operation that may have blocked for real.
func AfterBlock() {
	s, t := ctx()
	if t == nil {
		return
	}
	s.resync(t, true)
}

func After1[A any](a A) A                         { AfterBlock(); Yield(-1); return a }
func After2[A, B any](a A, b B) (A, B)            { AfterBlock(); Yield(-1); return a, b }
func After3[A, B, C any](a A, b B, c C) (A, B, C) { AfterBlock(); Yield(-1); return a, b, c }

// Sleep replaces time.Sleep.
func Sleep(site int, d time.Duration) {
	Yield(site)
	time.Sleep(d)
	AfterBlock()
}

// WaitUntil parks the calling task until cond holds (sim-level blocking, used by
// harness-provided stream endpoints). cond must be a pure read of state that only
// changes through tasks or environment actions. From an untracked goroutine it polls
// in virtual time.
func WaitUntil(site int, name string, cond func() bool) {
	s, t := ctx()
	if t == nil {
		for !cond() {
			time.Sleep(time.Microsecond)
		}
		return
	}
	s.yield(t, site)
	s.waitCond(t, name, cond)
}

// ---- mutexes ----

func (s *Sim) lockFree(k unsafe.Pointer, write bool) bool {
	s.mu.Lock()
	defer s.mu.Unlock()
	ls := s.locks[k]
	if ls == nil {
		return true
	}
	if write {
		return !ls.writer && ls.readers == 0
	}
	return !ls.writer
}

func (s *Sim) tryAcquire(k unsafe.Pointer, write bool) bool {
	s.mu.Lock()
	defer s.mu.Unlock()
	ls := s.locks[k]
	if ls == nil {
		ls = &lockState{}
		s.locks[k] = ls
	}
	if write {
		if ls.writer || ls.readers > 0 {
			return false
		}
		ls.writer = true
		return true
	}
	if ls.writer {
		return false
	}
	ls.readers++
	return true
}

func (s *Sim) releaseLock(k unsafe.Pointer, write bool) {
	s.mu.Lock()
	if ls := s.locks[k]; ls != nil {
		if write {
			ls.writer = false
		} else if ls.readers > 0 {
			ls.readers--
		}
		if !ls.writer && ls.readers == 0 {
			delete(s.locks, k)
		}
	}
	s.mu.Unlock()
}

func (s *Sim) acquire(t *Task, site int, k unsafe.Pointer, write bool, try func() bool) {
	s.yield(t, site)
	for {
		if s.tryAcquire(k, write) {
			if !try() {
				panic(fmt.Sprintf("simrt: lock table says free but real mutex is held (site %s)", SiteName(site)))
			}
			return
		}
		s.Stats.LockWaits++
		s.waitCond(t, "lock@"+SiteName(site), func() bool { return s.lockFree(k, write) })
	}
}

// untracked goroutines (library callbacks) never block on a real mutex that a parked
// task may hold: they poll in virtual time, which is a durable block.
func (s *Sim) acquireUntracked(k unsafe.Pointer, write bool, try func() bool) {
	s.mu.Lock()
	s.Stats.UntrackedLock++
	s.mu.Unlock()
	for {
		if s.tryAcquire(k, write) {
			if try() {
				return
			}
			s.releaseLock(k, write)
		}
		time.Sleep(time.Microsecond)
	}
}

func Lock(site int, m *sync.Mutex) {
	s, t := ctx()
	switch {
	case s == nil:
		m.Lock()
	case t == nil:
		s.acquireUntracked(unsafe.Pointer(m), true, m.TryLock)
	default:
		s.acquire(t, site, unsafe.Pointer(m), true, m.TryLock)
	}
}

func Unlock(m *sync.Mutex) {
	if s := cur.Load(); s != nil {
		s.releaseLock(unsafe.Pointer(m), true)
	}
	m.Unlock()
}

func WLock(site int, m *sync.RWMutex) {
	s, t := ctx()
	switch {
	case s == nil:
		m.Lock()
	case t == nil:
		s.acquireUntracked(unsafe.Pointer(m), true, m.TryLock)
	default:
		s.acquire(t, site, unsafe.Pointer(m), true, m.TryLock)
	}
}

func WUnlock(m *sync.RWMutex) {
	if s := cur.Load(); s != nil {
		s.releaseLock(unsafe.Pointer(m), true)
	}
	m.Unlock()
}

func RLock(site int, m *sync.RWMutex) {
	s, t := ctx()
	switch {
	case s == nil:
		m.RLock()
	case t == nil:
		s.acquireUntracked(unsafe.Pointer(m), false, m.TryRLock)
	default:
		s.acquire(t, site, unsafe.Pointer(m), false, m.TryRLock)
	}
}

func RUnlock(m *sync.RWMutex) {
	if s := cur.Load(); s != nil {
		s.releaseLock(unsafe.Pointer(m), false)
	}
	m.RUnlock()
}

// ---- channels ----

func Recv[T any](site int, ch <-chan T) T {
	Yield(site)
	defer AfterBlock()
	return <-ch
}

func Recv2[T any](site int, ch <-chan T) (T, bool) {
	Yield(site)
	defer AfterBlock()
	v, ok := <-ch
	return v, ok
}

func Send[T any](site int, ch chan<- T, v T) {
	Yield(site)
	defer AfterBlock()
	ch <- v
}

func Close[T any](site int, ch chan<- T) {
	Yield(site)
	close(ch)
}

// Case is one communication clause of a select.
type Case struct {
	c reflect.SelectCase
}

func R[T any](ch <-chan T) Case {
	return Case{reflect.SelectCase{Dir: reflect.SelectRecv, Chan: reflect.ValueOf(ch)}}
}

func S[T any](ch chan<- T, v T) Case {
	return Case{reflect.SelectCase{Dir: reflect.SelectSend, Chan: reflect.ValueOf(ch), Send: reflect.ValueOf(&v).Elem()}}
}

// Sel is the outcome of a Select.
type Sel struct {
	I  int
	V  reflect.Value
	OK bool
}

// RecvVal extracts the received value with the channel's element type.
func RecvVal[T any](ch <-chan T, s Sel) T {
	var z T
	if s.V.IsValid() {
		reflect.ValueOf(&z).Elem().Set(s.V)
	}
	return z
}

// Select replaces a select statement. It returns the index of the chosen clause
// (-1 for default). Which ready clause fires is decided by the tape.
func Select(site int, hasDefault bool, cases ...Case) Sel {
	s, t := ctx()
	rc := make([]reflect.SelectCase, len(cases), len(cases)+1)
	for i := range cases {
		rc[i] = cases[i].c
	}
	if t == nil {
		if hasDefault {
			rc = append(rc, reflect.SelectCase{Dir: reflect.SelectDefault})
		}
		i, v, ok := reflect.Select(rc)
		if hasDefault && i == len(cases) {
			i = -1
		}
		return Sel{i, v, ok}
	}
	s.yield(t, site)
	s.Stats.Selects++
	n := len(rc)
	start := 0
	if n > 1 && !s.fair {
		start = s.tape.Draw(n)
	}
	two := make([]reflect.SelectCase, 2)
	two[1] = reflect.SelectCase{Dir: reflect.SelectDefault}
	for k := 0; k < n; k++ {
		i := (start + k) % n
		if !rc[i].Chan.IsValid() || rc[i].Chan.IsNil() {
			continue
		}
		two[0] = rc[i]
		if j, v, ok := reflect.Select(two); j == 0 {
			return Sel{i, v, ok}
		}
	}
	if hasDefault {
		return Sel{I: -1}
	}
	defer AfterBlock()
	i, v, ok := reflect.Select(rc)
	return Sel{i, v, ok}
}

// ---- maps ----

// MapKeys returns the keys of m in an order chosen by the tape (canonical order in
// fair mode or outside a simulation... outside a simulation Go's own order is used).
func MapKeys[K comparable, V any](site int, m map[K]V) []K {
	keys := make([]K, 0, len(m))
	for k := range m {
		keys = append(keys, k)
	}
	s, t := ctx()
	if t == nil || len(keys) < 2 {
		if s != nil && len(keys) > 1 {
			sortKeys(keys)
		}
		return keys
	}
	s.Stats.MapRanges++
	sortKeys(keys)
	if !s.fair {
		// Fisher-Yates from the tape; an all-zero tape leaves the canonical order
		for i := 0; i < len(keys)-1; i++ {
			j := i + s.tape.Draw(len(keys)-i)
			keys[i], keys[j] = keys[j], keys[i]
		}
	}
	return keys
}

func sortKeys[K comparable](keys []K) {
	strs := make([]string, len(keys))
	for i, k := range keys {
		strs[i] = fmt.Sprintf("%#v", k)
	}
	idx := make([]int, len(keys))
	for i := range idx {
		idx[i] = i
	}
	sort.SliceStable(idx, func(a, b int) bool {
		sa, sb := strs[idx[a]], strs[idx[b]]
		if len(sa) != len(sb) {
			return len(sa) < len(sb)
		}
		return sa < sb
	})
	out := make([]K, len(keys))
	for i, j := range idx {
		out[i] = keys[j]
	}
	copy(keys, out)
}

// ---- knobs ----

// Knob wraps a tuning constant (queue capacity, ring size) so that a run may vary it.
func Knob(site int, def int) int {
	s := cur.Load()
	if s == nil || s.knobFn == nil {
		return def
	}
	s.mu.Lock()
	defer s.mu.Unlock()
	v := s.knobFn(site, def)
	s.knobs[site] = v
	return v
}
