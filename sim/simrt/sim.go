// Package simrt is the simulation runtime: a cooperative, one-task-at-a-time scheduler
// layered on testing/synctest. Instrumented code (see ../instrument) calls into it at
// every synchronisation operation; the harness ("world") supplies environment actions.
//
// Exactly one task executes between two scheduler decisions. A task is a goroutine
// created through Go/Async (or the world's entry point). Tasks park on a private
// channel (a durable block for synctest) whenever they reach a scheduling point, so
// synctest.Wait() returning means: every task is parked, durably blocked in a real
// operation, or finished.
package simrt

import (
	"fmt"
	"runtime"
	"sort"
	"strings"
	"sync"
	"sync/atomic"
	"testing/synctest"
	"time"
	"unsafe"
)

const (
	stRunning int32 = iota
	stReady         // parked at a scheduling point, can be released
	stCond          // parked until cond() holds
	stBlocked       // observed durably blocked inside a real operation
	stDone
	stUnborn // task id reserved (context.AfterFunc registered) but its goroutine has not started
)

// Task is one simulated thread of control.
type Task struct {
	ID       int
	Name     string
	Site     int
	Parent   int
	wake     chan struct{}
	state    int32
	mustPark int32
	cond     func() bool
	condName string
	goid     uint64
	steps    int
	consec   int
	rotated  bool
	prio     int // PCT priority (higher runs first)
}

// Action is an environment step the world offers to the scheduler.
type Action struct {
	Name   string
	Weight int // relative weight in random mode (0 = never chosen at random, only when listed first in fair mode)
	Fault  bool
	Prio   int // fair mode only: lower runs first (0 = most urgent)
	Do     func()
}

// World is the harness driving a run.
type World interface {
	// Actions returns the environment actions enabled right now (deterministic order).
	Actions() []Action
	// Done reports whether the run should stop (checked at every quiescent point).
	Done() bool
	// NextWake returns the next virtual instant at which Actions() may change on its own (zero = none).
	NextWake() time.Time
}

// Options configures one run.
type Options struct {
	PKeep        int // 0..100: probability (percent) that a yielding task simply continues
	MaxDecisions int
	MaxVirtual   time.Duration
	TraceFull    bool // keep the full event log (otherwise only its hash)
	WTask        int  // weight of each other ready task (default 4)
	WTime        int  // weight of a voluntary time advance (default 1)
}

// Crash describes an unrecovered panic in a task (the process would have died).
type Crash struct {
	Task  string
	Value string
	Stack string
}

// Stats are per-run counters reported in evidence.
type Stats struct {
	Decisions     int
	InlineKeeps   int
	Switches      int
	EnvActions    int
	Faults        int
	TimeAdvances  int
	SpinReliefs   int
	IdleWaits     int
	Tasks         int
	Escapes       int
	Selects       int
	MapRanges     int
	LockWaits     int
	RealBlocks    int
	UntrackedLock int
}

// Sim is one simulated execution.
type Sim struct {
	tape   *Tape
	opts   Options
	world  World
	mu     sync.Mutex // protects tasks, byGoid, locks (never held across a park)
	tasks  []*Task
	byGoid map[uint64]*Task
	nextID int
	locks  map[unsafe.Pointer]*lockState

	current *Task
	lastRun *Task
	fair    bool
	rr      int
	rrAct   string
	// spin handling in fair mode: after spinLimit consecutive task steps during which neither an
	// environment action ran nor virtual time passed, one environment action runs and spinStep
	// of virtual time passes although tasks are ready (a goroutine that spins without ever
	// blocking does not stop the clock or the rest of the world on a real machine)
	spinLimit int
	spinStep  time.Duration
	spinRun   int
	stopping  int32
	wakeCh    chan struct{}
	start     time.Time

	crash   *Crash
	Stats   Stats
	trace   traceLog
	probes  map[string]int
	knobs   map[int]int
	knobFn  func(site, def int) int
	budget  bool // decision/time budget exhausted
	Verbose bool
	// PCT-style policy (Burckhardt et al.): tasks get random priorities, the highest-priority
	// ready task always runs, and at d random scheduling points the running task is demoted.
	pct       bool
	pctPoints map[int]bool
	yields    int
	demoted   int
}

type lockState struct {
	writer  bool
	readers int
}

var cur atomic.Pointer[Sim]

// Current returns the active simulation or nil.
func Current() *Sim { return cur.Load() }

func goid() uint64 {
	var buf [64]byte
	n := runtime.Stack(buf[:], false)
	// "goroutine 123 ["
	var id uint64
	for i := len("goroutine "); i < n; i++ {
		c := buf[i]
		if c < '0' || c > '9' {
			break
		}
		id = id*10 + uint64(c-'0')
	}
	return id
}

func (s *Sim) self() *Task {
	g := goid()
	s.mu.Lock()
	t := s.byGoid[g]
	s.mu.Unlock()
	return t
}

func ctx() (*Sim, *Task) {
	s := cur.Load()
	if s == nil {
		return nil, nil
	}
	return s, s.self()
}

// New creates a simulation. Must be called inside a synctest bubble; Run must be
// called from the bubble's root goroutine.
func New(tape *Tape, opts Options) *Sim {
	if opts.WTask == 0 {
		opts.WTask = 4
	}
	if opts.WTime == 0 {
		opts.WTime = 1
	}
	if opts.MaxDecisions == 0 {
		opts.MaxDecisions = 4000
	}
	if opts.MaxVirtual == 0 {
		opts.MaxVirtual = 10 * time.Minute
	}
	s := &Sim{
		tape:   tape,
		opts:   opts,
		byGoid: map[uint64]*Task{},
		locks:  map[unsafe.Pointer]*lockState{},
		wakeCh: make(chan struct{}, 1),
		probes: map[string]int{},
		knobs:  map[int]int{},
		start:  time.Now(),
	}
	s.trace.full = opts.TraceFull
	// scheduling policy of this run: 0/1 = random walk with inline continuation, 2 = PCT
	if tape.Draw(3) == 2 {
		s.pct = true
		s.pctPoints = map[int]bool{}
		depth := 1 + tape.Draw(3)
		horizon := 200 * (1 + tape.Draw(10))
		for i := 0; i < depth; i++ {
			s.pctPoints[1+tape.Draw(horizon)] = true
		}
	}
	cur.Store(s)
	return s
}

// Draw takes the next value from the tape (harness use; must only be called from the
// scheduler goroutine or the running task).
func (s *Sim) Draw(n int) int { return s.tape.Draw(n) }

// Tape returns the tape.
func (s *Sim) Tape() *Tape { return s.tape }

// Now is the virtual time since the start of the run.
func (s *Sim) Now() time.Duration { return time.Since(s.start) }

// SetFair switches between random (tape-driven) and fair deterministic scheduling.
func (s *Sim) SetFair(f bool) { s.fair = f }

// SetSpinRelief enables the fair-mode spin handling (0 disables).
func (s *Sim) SetSpinRelief(limit int, step time.Duration) {
	s.spinLimit, s.spinStep, s.spinRun = limit, step, 0
}

// SetPKeep changes the keep probability.
func (s *Sim) SetPKeep(p int) { s.opts.PKeep = p }

// ExtendBudget raises the decision budget (used when entering a drain phase).
func (s *Sim) ExtendBudget(decisions int, virtual time.Duration) {
	s.opts.MaxDecisions = s.Stats.Decisions + decisions
	s.opts.MaxVirtual = s.Now() + virtual
	s.budget = false
}

// BudgetExhausted reports whether the last Run ended because a bound was hit.
func (s *Sim) BudgetExhausted() bool { return s.budget }

// Crashed returns the recorded crash, if any.
func (s *Sim) Crashed() *Crash { return s.crash }

// Probe counts a "this rare condition was hit" event.
func (s *Sim) Probe(name string) { s.probes[name]++ }

// Probes returns the probe counters.
func (s *Sim) Probes() map[string]int { return s.probes }

// SetKnobFn installs the per-run knob chooser.
func (s *Sim) SetKnobFn(f func(site, def int) int) { s.knobFn = f }

// Probe is the package-level variant usable from harness code running inside tasks.
func Probe(name string) {
	if s := cur.Load(); s != nil {
		s.mu.Lock()
		s.probes[name]++
		s.mu.Unlock()
	}
}

func (s *Sim) newTask(name string, site int) *Task {
	s.mu.Lock()
	t := &Task{ID: s.nextID, Name: name, Site: site, wake: make(chan struct{})}
	s.nextID++
	if s.pct {
		t.prio = 1 + s.tape.Draw(1<<16)
	}
	if c := s.current; c != nil {
		t.Parent = c.ID
	} else {
		t.Parent = -1
	}
	s.tasks = append(s.tasks, t)
	s.Stats.Tasks++
	s.mu.Unlock()
	return t
}

func (s *Sim) adopt(t *Task) {
	g := goid()
	s.mu.Lock()
	t.goid = g
	s.byGoid[g] = t
	s.mu.Unlock()
}

func (s *Sim) finish(t *Task) {
	s.mu.Lock()
	delete(s.byGoid, t.goid)
	s.mu.Unlock()
	atomic.StoreInt32(&t.state, stDone)
}

func (t *Task) park(st int32) {
	atomic.StoreInt32(&t.state, st)
	<-t.wake
}

func (s *Sim) runTask(t *Task, f func()) {
	s.adopt(t)
	defer s.finish(t)
	defer func() {
		if r := recover(); r != nil {
			buf := make([]byte, 16384)
			n := runtime.Stack(buf, false)
			s.mu.Lock()
			if s.crash == nil {
				s.crash = &Crash{Task: t.Name, Value: fmt.Sprint(r), Stack: string(buf[:n])}
			}
			s.mu.Unlock()
		}
	}()
	t.park(stReady)
	f()
}

// spawn starts f as a new task; the task parks immediately and runs when scheduled.
func (s *Sim) spawn(name string, site int, f func()) *Task {
	t := s.newTask(name, site)
	go s.runTask(t, f)
	return t
}

// Spawn lets the world start a task (e.g. a handler invocation) from an action.
func (s *Sim) Spawn(name string, f func()) *Task { return s.spawn(name, -1, f) }

// resync parks a task that was observed blocked and has now been woken by someone else.
func (s *Sim) resync(t *Task, fromAfterBlock bool) {
	if atomic.LoadInt32(&t.mustPark) == 1 {
		atomic.StoreInt32(&t.mustPark, 0)
		if !fromAfterBlock {
			s.mu.Lock()
			s.Stats.Escapes++
			s.mu.Unlock()
		}
		select {
		case s.wakeCh <- struct{}{}:
		default:
		}
		t.park(stReady)
	}
}

func (s *Sim) yield(t *Task, site int) {
	s.resync(t, false)
	t.Site = site
	t.steps++
	if atomic.LoadInt32(&s.stopping) == 0 && s.current == t {
		if s.fair {
			// fair mode runs a task until it blocks, but a task that keeps reaching scheduling
			// points without ever blocking (a spin-wait on something another task must do) is
			// rotated out after a while
			t.consec++
			if t.consec < 64 {
				s.Stats.InlineKeeps++
				return
			}
			t.consec = 0
			t.rotated = true
			t.park(stReady)
			return
		}
		if s.pct {
			// PCT: keep running unless this scheduling point is a priority change point
			s.yields++
			s.Stats.Decisions++
			if !s.pctPoints[s.yields] {
				// still let the environment in now and then (every 16th point parks)
				if s.yields%16 != 0 {
					s.Stats.InlineKeeps++
					return
				}
			} else {
				s.demoted++
				t.prio = -s.demoted
			}
		} else if s.Stats.Decisions < s.opts.MaxDecisions {
			s.Stats.Decisions++
			if s.tape.Draw(100) < s.opts.PKeep {
				s.Stats.InlineKeeps++
				return
			}
		}
	}
	t.park(stReady)
}

func (s *Sim) waitCond(t *Task, name string, cond func() bool) {
	for !cond() {
		t.cond = cond
		t.condName = name
		t.park(stCond)
	}
	t.cond = nil
}

// ---- scheduler ----

// Run executes the world until Done() or a bound is hit. It may be called several
// times (phases). Must be called from the bubble root goroutine.
func (s *Sim) Run(w World) {
	s.world = w
	cur.Store(s)
	for {
		synctest.Wait()
		s.observe()
		if s.crash != nil || w.Done() {
			return
		}
		if s.Stats.Decisions >= s.opts.MaxDecisions || s.Now() >= s.opts.MaxVirtual {
			s.budget = true
			return
		}
		ready := s.readyTasks()
		acts := w.Actions()
		if len(ready) == 0 && len(acts) == 0 {
			if !s.idle(w) {
				// nothing can ever happen again
				return
			}
			continue
		}
		s.decide(ready, acts)
	}
}

// observe marks tasks that are still "running" after quiescence as really blocked.
func (s *Sim) observe() {
	s.mu.Lock()
	for _, t := range s.tasks {
		if atomic.LoadInt32(&t.state) == stRunning {
			atomic.StoreInt32(&t.state, stBlocked)
			atomic.StoreInt32(&t.mustPark, 1)
			s.Stats.RealBlocks++
		}
	}
	s.mu.Unlock()
	if c := s.current; c != nil {
		st := atomic.LoadInt32(&c.state)
		if st != stReady {
			s.current = nil
		}
	}
}

func (s *Sim) readyTasks() []*Task {
	var r []*Task
	s.mu.Lock()
	ts := append([]*Task(nil), s.tasks...)
	s.mu.Unlock()
	for _, t := range ts {
		switch atomic.LoadInt32(&t.state) {
		case stReady:
			r = append(r, t)
		case stCond:
			if t.cond != nil && t.cond() {
				r = append(r, t)
			}
		}
	}
	return r
}

// CurrentLineage returns the names of the calling task and its ancestors (innermost first).
// It lets a harness decorator attribute a call to the stream handler it descends from.
func CurrentLineage() []string {
	s, t := ctx()
	if t == nil {
		return nil
	}
	var out []string
	s.mu.Lock()
	defer s.mu.Unlock()
	for t != nil {
		out = append(out, t.Name)
		if t.Parent < 0 || t.Parent >= len(s.tasks) {
			break
		}
		t = s.tasks[t.Parent]
	}
	return out
}

// LiveTasks returns the tasks that have not finished, with a description of where they are.
func (s *Sim) LiveTasks() []string {
	var out []string
	s.mu.Lock()
	defer s.mu.Unlock()
	for _, t := range s.tasks {
		st := atomic.LoadInt32(&t.state)
		if st == stDone || st == stUnborn {
			continue
		}
		desc := map[int32]string{stRunning: "running", stReady: "ready", stCond: "wait:" + t.condName, stBlocked: "blocked"}[st]
		out = append(out, fmt.Sprintf("%s#%d@%s[%s]", t.Name, t.ID, SiteName(t.Site), desc))
	}
	return out
}

// NumLive is the number of unfinished tasks.
func (s *Sim) NumLive() int {
	n := 0
	s.mu.Lock()
	for _, t := range s.tasks {
		if st := atomic.LoadInt32(&t.state); st != stDone && st != stUnborn {
			n++
		}
	}
	s.mu.Unlock()
	return n
}

func (s *Sim) release(t *Task) {
	if s.lastRun != t {
		s.Stats.Switches++
		// Real clocks never tie at nanosecond resolution; the bubble's clock only moves when
		// everything is idle. Let a microsecond pass at every task switch so that events of
		// different tasks carry distinct timestamps (registration timestamps are identities).
		time.Sleep(time.Microsecond)
	}
	s.lastRun = t
	s.current = t
	atomic.StoreInt32(&t.state, stRunning)
	t.wake <- struct{}{}
}

func (s *Sim) decide(ready []*Task, acts []Action) {
	if s.fair {
		s.decideFair(ready, acts)
		return
	}
	s.Stats.Decisions++
	// candidate order: current task, other tasks by id, benign actions, time, faults
	type cand struct {
		w    int
		task *Task
		act  *Action
		time bool
	}
	var cs []cand
	if s.pct && len(ready) > 0 {
		// only the highest-priority ready task competes (ties by id)
		top := ready[0]
		for _, t := range ready {
			if t.prio > top.prio {
				top = t
			}
		}
		cs = append(cs, cand{w: 3 * s.opts.WTask, task: top})
		ready = nil
	}
	for _, t := range ready {
		if t == s.current {
			cs = append(cs, cand{w: s.opts.WTask, task: t})
		}
	}
	for _, t := range ready {
		if t != s.current {
			cs = append(cs, cand{w: s.opts.WTask, task: t})
		}
	}
	for i := range acts {
		if !acts[i].Fault && acts[i].Weight > 0 {
			cs = append(cs, cand{w: acts[i].Weight, act: &acts[i]})
		}
	}
	cs = append(cs, cand{w: s.opts.WTime, time: true})
	for i := range acts {
		if acts[i].Fault && acts[i].Weight > 0 {
			cs = append(cs, cand{w: acts[i].Weight, act: &acts[i]})
		}
	}
	total := 0
	for _, c := range cs {
		total += c.w
	}
	r := s.tape.Draw(total)
	var pick cand
	for _, c := range cs {
		if r < c.w {
			pick = c
			break
		}
		r -= c.w
	}
	switch {
	case pick.task != nil:
		s.trace.addTask(pick.task)
		s.release(pick.task)
	case pick.act != nil:
		s.Stats.EnvActions++
		if pick.act.Fault {
			s.Stats.Faults++
		}
		s.trace.adds("A", pick.act.Name)
		s.current = nil
		pick.act.Do()
	default:
		s.Stats.TimeAdvances++
		d := []time.Duration{time.Millisecond, 15 * time.Millisecond, 250 * time.Millisecond, 1100 * time.Millisecond}[s.tape.Draw(4)]
		s.trace.adds("W", d.String())
		time.Sleep(d)
	}
}

func (s *Sim) decideFair(ready []*Task, acts []Action) {
	s.Stats.Decisions++
	relief := false
	if len(ready) > 0 && s.spinLimit > 0 {
		s.spinRun++
		if s.spinRun > s.spinLimit {
			s.spinRun = 0
			s.Stats.SpinReliefs++
			s.trace.adds("W", "spin-relief "+s.spinStep.String())
			s.current = nil
			time.Sleep(s.spinStep)
			ready, relief = nil, true // this decision goes to the environment
		}
	} else {
		s.spinRun = 0
	}
	if len(ready) > 0 {
		// continue the current task if it is ready, else round-robin by id
		for _, t := range ready {
			if t == s.current && !t.rotated {
				s.release(t)
				return
			}
		}
		if c := s.current; c != nil && c.rotated {
			c.rotated = false
			s.rr = c.ID
		}
		sort.Slice(ready, func(i, j int) bool { return ready[i].ID < ready[j].ID })
		pick := ready[0]
		for _, t := range ready {
			if t.ID > s.rr {
				pick = t
				break
			}
		}
		s.rr = pick.ID
		s.trace.addTask(pick)
		s.release(pick)
		return
	}
	// round-robin over the enabled benign actions (by name, cyclically after the last one run)
	var benign []*Action
	minPrio := 1 << 30
	for i := range acts {
		if !acts[i].Fault && acts[i].Prio < minPrio {
			minPrio = acts[i].Prio
		}
	}
	for i := range acts {
		if !acts[i].Fault && acts[i].Prio == minPrio {
			benign = append(benign, &acts[i])
		}
	}
	if len(benign) > 0 {
		pick := benign[0]
		for _, a := range benign {
			if a.Name > s.rrAct {
				pick = a
				break
			}
		}
		// benign is in world order, not sorted: choose the smallest name greater than rrAct
		best := ""
		for _, a := range benign {
			if a.Name > s.rrAct && (best == "" || a.Name < best) {
				best = a.Name
				pick = a
			}
		}
		if best == "" {
			for _, a := range benign {
				if best == "" || a.Name < best {
					best = a.Name
					pick = a
				}
			}
		}
		s.rrAct = pick.Name
		s.Stats.EnvActions++
		s.trace.adds("A", pick.Name)
		s.current = nil
		pick.Do()
		return
	}
	if relief {
		return
	}
	// only faults enabled: treat as idle
	s.idle(s.world)
}

// idle lets virtual time pass until a blocked task wakes, the world's next wake-up,
// or a cap. Returns false if nothing can ever wake again.
func (s *Sim) idle(w World) bool {
	s.Stats.IdleWaits++
	limit := 5 * time.Second
	if nw := w.NextWake(); !nw.IsZero() {
		if d := time.Until(nw); d < limit {
			limit = d
		}
	}
	if rem := s.opts.MaxVirtual - s.Now(); rem < limit {
		limit = rem
	}
	if limit <= 0 {
		limit = time.Microsecond
	}
	select {
	case <-s.wakeCh:
	default:
	}
	tm := time.NewTimer(limit)
	select {
	case <-s.wakeCh:
		tm.Stop()
	case <-tm.C:
	}
	s.trace.adds("I", s.Now().String())
	return true
}

// Shutdown ends the simulation. Tasks still alive are abandoned where they are (the
// caller recovers synctest's end-of-bubble deadlock panic); their descriptions are returned.
func (s *Sim) Shutdown() []string {
	synctest.Wait()
	live := s.LiveTasks()
	atomic.StoreInt32(&s.stopping, 1)
	cur.Store(nil)
	return live
}

// ---- trace ----

type traceLog struct {
	full  bool
	h     uint64
	n     int
	lines []string
}

func (t *traceLog) mix(x uint64) {
	t.h ^= x
	t.h *= 0x100000001b3
	t.n++
}

func (t *traceLog) add(kind string, a, b int) {
	t.mix(uint64(kind[0])<<56 ^ uint64(uint32(a))<<24 ^ uint64(uint32(b)))
	if t.full {
		t.lines = append(t.lines, fmt.Sprintf("%s %d %s", kind, a, SiteName(b)))
	}
}

func (t *traceLog) addTask(tk *Task) {
	t.mix(uint64('T')<<56 ^ uint64(uint32(tk.ID))<<24 ^ uint64(uint32(tk.Site)))
	if t.full {
		t.lines = append(t.lines, fmt.Sprintf("T %d(%s) %s", tk.ID, tk.Name, SiteName(tk.Site)))
	}
}

func (t *traceLog) adds(kind, s string) {
	h := uint64(kind[0])
	for i := 0; i < len(s); i++ {
		h = (h ^ uint64(s[i])) * 0x100000001b3
	}
	t.mix(h)
	if t.full {
		t.lines = append(t.lines, kind+" "+s)
	}
}

// Log records a world-level event in the trace (and its hash).
func (s *Sim) Log(format string, args ...any) {
	if s.trace.full || s.Verbose {
		msg := fmt.Sprintf(format, args...)
		s.trace.adds("E", msg)
		if s.Verbose {
			fmt.Printf("[%9s d=%d] %s\n", s.Now(), s.Stats.Decisions, msg)
		}
		return
	}
	// hash only: cheap path still needs the formatted text for a faithful hash
	s.trace.adds("E", fmt.Sprintf(format, args...))
}

// TraceHash is the fingerprint of the schedule and world events.
func (s *Sim) TraceHash() uint64 { return s.trace.h }

// TraceLines returns the full trace when TraceFull was set.
func (s *Sim) TraceLines() []string { return s.trace.lines }

// TraceTail returns the last n lines of the full trace.
func (s *Sim) TraceTail(n int) string {
	l := s.trace.lines
	if len(l) > n {
		l = l[len(l)-n:]
	}
	return strings.Join(l, "\n")
}

// ---- site table ----

var (
	siteMu    sync.Mutex
	siteNames = map[int]string{}
)

// RegisterSites is called by generated code (init) to name instrumentation sites.
func RegisterSites(base int, names []string) {
	siteMu.Lock()
	for i, n := range names {
		siteNames[base+i] = n
	}
	siteMu.Unlock()
}

// SiteName returns the source position of a site id.
func SiteName(id int) string {
	if id < 0 {
		return "harness"
	}
	siteMu.Lock()
	n, ok := siteNames[id]
	siteMu.Unlock()
	if !ok {
		return fmt.Sprintf("site%d", id)
	}
	return n
}
