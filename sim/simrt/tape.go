package simrt

// Tape is the single source of every choice made in a run: configuration, scheduling,
// select/map permutations, environment-action generators. In search mode it is filled
// lazily from a PRNG seeded with VERIF_SEED; in replay mode it is read back verbatim
// (values are reduced modulo the number of alternatives, an exhausted tape reads 0).
// Convention everywhere: alternative 0 is the blandest one, so that a tape shrunk
// towards zeros is a run shrunk towards "nothing unusual happens".
type Tape struct {
	rng    splitmix
	replay []uint32
	useRep bool
	pos    int
	rec    []uint32
}

type splitmix struct{ s uint64 }

func (r *splitmix) next() uint64 {
	r.s += 0x9e3779b97f4a7c15
	z := r.s
	z = (z ^ (z >> 30)) * 0xbf58476d1ce4e5b9
	z = (z ^ (z >> 27)) * 0x94d049bb133111eb
	return z ^ (z >> 31)
}

// NewSeedTape returns a tape generated from seed.
func NewSeedTape(seed uint64) *Tape {
	return &Tape{rng: splitmix{s: seed*0x2545F4914F6CDD1D + 0x1234567}}
}

// NewReplayTape returns a tape replaying vals.
func NewReplayTape(vals []uint32) *Tape {
	return &Tape{replay: append([]uint32(nil), vals...), useRep: true}
}

// Draw returns a value in [0,n). n<=1 consumes nothing.
func (t *Tape) Draw(n int) int {
	if n <= 1 {
		return 0
	}
	var v uint32
	if t.useRep {
		if t.pos < len(t.replay) {
			v = t.replay[t.pos] % uint32(n)
		}
	} else {
		v = uint32(t.rng.next()>>33) % uint32(n)
	}
	t.pos++
	t.rec = append(t.rec, v)
	return int(v)
}

// Recorded returns the values drawn so far (already reduced).
func (t *Tape) Recorded() []uint32 { return append([]uint32(nil), t.rec...) }

// Pos is the number of draws so far.
func (t *Tape) Pos() int { return t.pos }
