package proxy

import "go.temporal.io/server/client/history"

// VsimRing gives the harness (package vsim/worlds) access to the unexported proxy-id
// ring buffer. This file is added to the package through the build overlay only.
type VsimRing struct{ b *proxyIDRingBuffer }

func VsimNewRing(capacity int) *VsimRing { return &VsimRing{b: newProxyIDRingBuffer(capacity)} }

func (r *VsimRing) Append(proxyID int64, shard history.ClusterShardID, task int64) {
	r.b.Append(proxyID, shard, task)
}

func (r *VsimRing) AggregateUpTo(w int64) (map[history.ClusterShardID]int64, int) {
	return r.b.AggregateUpTo(w)
}

func (r *VsimRing) Discard(n int) { r.b.Discard(n) }

// Shape returns (capacity, head, size, startProxyID).
func (r *VsimRing) Shape() (int, int, int, int64) {
	return len(r.b.entries), r.b.head, r.b.size, r.b.startProxyID
}
