package proxy

import (
	"go.temporal.io/server/client/history"

	vsimrt "vsim/simrt"
)

// VsimRing gives the harness (package vsim/worlds) access to the unexported proxy-id
// ring buffer. This file is added to the package through the build overlay only.
type VsimRing struct{ b *proxyIDRingBuffer }

func VsimNewRing(capacity int) *VsimRing { return &VsimRing{b: newProxyIDRingBuffer(capacity)} }

func (r *VsimRing) Append(proxyID int64, shard history.ClusterShardID, task int64) {
	r.b.Append(proxyID, shard, task)
}

func (r *VsimRing) AggregateUpTo(w int64) (map[history.ClusterShardID]int64, int) {
	return r.b.AggregateUpTo(w)
}

func (r *VsimRing) Discard(n int) { r.b.Discard(n) }

// Shape returns (capacity, head, size, startProxyID).
func (r *VsimRing) Shape() (int, int, int, int64) {
	return len(r.b.entries), r.b.head, r.b.size, r.b.startProxyID
}

// VsimIntraLinks lists the intra-proxy senders and receivers registered in a shard
// manager's intra-proxy manager as "peer|target|source" strings (harness introspection).
func VsimIntraLinks(sm ShardManager) (senders, receivers []string) {
	m := sm.GetIntraProxyManager()
	if m == nil {
		return nil, nil
	}
	vsimrt.RLock(-1, &m.streamsMu)
	defer vsimrt.RUnlock(&m.streamsMu)
	for peer, ps := range m.peers {
		for k := range ps.senders {
			senders = append(senders, peer+"|"+ClusterShardIDtoShortString(k.targetShard)+"|"+ClusterShardIDtoShortString(k.sourceShard))
		}
		for k, r := range ps.receivers {
			if r != nil && r.streamClient != nil {
				receivers = append(receivers, peer+"|"+ClusterShardIDtoShortString(k.targetShard)+"|"+ClusterShardIDtoShortString(k.sourceShard))
			}
		}
	}
	return
}
