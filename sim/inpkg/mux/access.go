package mux

import (
	"sort"

	"github.com/temporalio/s2s-proxy/transport/mux/session"
)

// VsimSessions returns the manager's session table without taking its lock. The harness only
// calls it between scheduler steps, when every task is parked (so there is no concurrent
// writer) - taking the lock there could wait forever on a task parked inside AddConnection.
func VsimSessions(m MultiMuxManager) map[string]session.ManagedMuxSession {
	mm, ok := m.(*multiMuxManager)
	if !ok {
		return nil
	}
	out := make(map[string]session.ManagedMuxSession, len(mm.muxes))
	for k, v := range mm.muxes {
		out[k] = v
	}
	return out
}

// VsimSessionIDs lists the ids in the session table (sorted).
func VsimSessionIDs(m MultiMuxManager) []string {
	var ids []string
	for k := range VsimSessions(m) {
		ids = append(ids, k)
	}
	sort.Strings(ids)
	return ids
}
