package grpcutil

import "sort"

// VsimEndpoints lists the endpoint keys the MultiClientConn may dial (its connection map),
// without taking its lock: the harness calls it between scheduler steps only.
func VsimEndpoints(mcc *MultiClientConn) []string {
	var ks []string
	for k := range mcc.connMap {
		ks = append(ks, k)
	}
	sort.Strings(ks)
	return ks
}
