// Package instrument rewrites the packages under simulation so that every
// synchronisation operation goes through vsim/simrt, and applies the environment seam
// swaps. It works on /repo's *current working tree* and writes instrumented copies to
// a scratch directory plus an overlay.json for `go build -overlay`; /repo is not touched.
package instrument

import (
	"bytes"
	"encoding/json"
	"fmt"
	"go/ast"
	"go/constant"
	"go/format"
	"go/token"
	"go/types"
	"os"
	"path/filepath"
	"sort"
	"strconv"
	"strings"

	"golang.org/x/tools/go/ast/astutil"
	"golang.org/x/tools/go/packages"
)

const rtName = "vsimrt"
const rtPath = "vsim/simrt"

// Seam is a qualified-identifier substitution applied in one file.
type Seam struct {
	File    string // path relative to the repo root
	Pkg     string // import path of the original qualifier, e.g. "net"
	Name    string // e.g. "Listen"
	NewPkg  string // import path of the replacement
	NewName string
}

// ImportSwap replaces an import path in one file.
type ImportSwap struct {
	File string
	Old  string
	New  string
}

// Config selects what to instrument.
type Config struct {
	RepoRoot    string
	HarnessDir  string              // module dir from which packages are loaded (has replace => RepoRoot)
	Files       map[string][]string // import path -> file base names to instrument (nil slice = all non-test files)
	Seams       []Seam
	Swaps       []ImportSwap
	InPkg       map[string]string // import path -> dir with extra in-package files to add
	OutDir      string
	BlockingFns map[string]map[string]bool // callee pkg path -> func/method names followed by AfterBlock
	KnobFuncs   map[string]bool            // unexported constructor names whose constant arg becomes a knob
}

// Report says what was done (goes into evidence).
type Report struct {
	Files        []string       `json:"files"`
	Counts       map[string]int `json:"counts"`
	SeamsApplied []string       `json:"seams_applied"`
	Fingerprint  string         `json:"fingerprint"`
}

type fileCtx struct {
	cfg      *Config
	pkg      *packages.Package
	file     *ast.File
	rel      string
	base     int
	sites    []string
	counts   map[string]int
	errs     []string
	tmp      int
	inSelect map[ast.Node]bool
	skipRecv map[ast.Node]bool
	seamHit  map[string]bool
	needImp  map[string]string // path -> name
}

// enclosingFunc names the top-level function a position lies in.
func (c *fileCtx) enclosingFunc(p token.Pos) string {
	for _, d := range c.file.Decls {
		if fd, ok := d.(*ast.FuncDecl); ok && fd.Pos() <= p && p <= fd.End() {
			return fd.Name.Name
		}
	}
	return ""
}

func (c *fileCtx) site(n ast.Node, what string) ast.Expr {
	pos := c.pkg.Fset.Position(n.Pos())
	id := c.base + len(c.sites)
	name := fmt.Sprintf("%s:%d:%s", c.rel, pos.Line, what)
	if fn := c.enclosingFunc(n.Pos()); fn != "" && n.Pos().IsValid() {
		name += "@" + fn
	}
	c.sites = append(c.sites, name)
	_ = pos
	return &ast.BasicLit{Kind: token.INT, Value: strconv.Itoa(id)}
}

func (c *fileCtx) errorf(n ast.Node, format string, args ...any) {
	pos := c.pkg.Fset.Position(n.Pos())
	c.errs = append(c.errs, fmt.Sprintf("%s:%d: %s", c.rel, pos.Line, fmt.Sprintf(format, args...)))
}

func rt(name string) ast.Expr {
	return &ast.SelectorExpr{X: ast.NewIdent(rtName), Sel: ast.NewIdent(name)}
}

func call(fun ast.Expr, args ...ast.Expr) *ast.CallExpr { return &ast.CallExpr{Fun: fun, Args: args} }

func (c *fileCtx) fresh(prefix string) *ast.Ident {
	c.tmp++
	return ast.NewIdent(fmt.Sprintf("_v%s%d", prefix, c.tmp))
}

func isPure(e ast.Expr) bool {
	switch x := e.(type) {
	case *ast.Ident:
		return true
	case *ast.SelectorExpr:
		return isPure(x.X)
	case *ast.ParenExpr:
		return isPure(x.X)
	case *ast.StarExpr:
		return isPure(x.X)
	}
	return false
}

// calleeOf returns the called function object (package func or method), if statically known.
func (c *fileCtx) calleeOf(ce *ast.CallExpr) *types.Func {
	var id *ast.Ident
	switch f := ast.Unparen(ce.Fun).(type) {
	case *ast.Ident:
		id = f
	case *ast.SelectorExpr:
		id = f.Sel
	case *ast.IndexExpr:
		if s, ok := f.X.(*ast.SelectorExpr); ok {
			id = s.Sel
		} else if i, ok := f.X.(*ast.Ident); ok {
			id = i
		}
	}
	if id == nil {
		return nil
	}
	if fn, ok := c.pkg.TypesInfo.Uses[id].(*types.Func); ok {
		return fn
	}
	return nil
}

func recvNamed(fn *types.Func) (pkg, typ string) {
	sig, ok := fn.Type().(*types.Signature)
	if !ok || sig.Recv() == nil {
		return "", ""
	}
	t := sig.Recv().Type()
	if p, ok := t.(*types.Pointer); ok {
		t = p.Elem()
	}
	if n, ok := t.(*types.Named); ok && n.Obj().Pkg() != nil {
		return n.Obj().Pkg().Path(), n.Obj().Name()
	}
	return "", ""
}

// mutexCall recognises X.Lock()/Unlock()/RLock()/RUnlock() on sync.Mutex / sync.RWMutex.
func (c *fileCtx) mutexCall(ce *ast.CallExpr) (recv ast.Expr, typ, method string, ok bool) {
	sel, isSel := ce.Fun.(*ast.SelectorExpr)
	if !isSel || len(ce.Args) != 0 {
		return nil, "", "", false
	}
	fn := c.calleeOf(ce)
	if fn == nil {
		return nil, "", "", false
	}
	p, t := recvNamed(fn)
	if p != "sync" || (t != "Mutex" && t != "RWMutex") {
		return nil, "", "", false
	}
	switch fn.Name() {
	case "Lock", "Unlock", "RLock", "RUnlock":
	default:
		return nil, "", "", false
	}
	s := c.pkg.TypesInfo.Selections[sel]
	if s == nil || len(s.Index()) != 1 {
		c.errorf(ce, "mutex method through embedding is not supported")
		return nil, "", "", false
	}
	xt := c.pkg.TypesInfo.TypeOf(sel.X)
	var addr ast.Expr
	if _, isPtr := xt.Underlying().(*types.Pointer); isPtr {
		addr = sel.X
	} else {
		addr = &ast.UnaryExpr{Op: token.AND, X: sel.X}
	}
	return addr, t, fn.Name(), true
}

func (c *fileCtx) isMap(e ast.Expr) bool {
	t := c.pkg.TypesInfo.TypeOf(e)
	if t == nil {
		return false
	}
	_, ok := t.Underlying().(*types.Map)
	return ok
}

func (c *fileCtx) isChan(e ast.Expr) bool {
	t := c.pkg.TypesInfo.TypeOf(e)
	if t == nil {
		return false
	}
	_, ok := t.Underlying().(*types.Chan)
	return ok
}

func (c *fileCtx) keyDeterministic(e ast.Expr) bool {
	m := c.pkg.TypesInfo.TypeOf(e).Underlying().(*types.Map)
	return detType(m.Key(), 0)
}

func detType(t types.Type, depth int) bool {
	if depth > 6 {
		return false
	}
	switch u := t.Underlying().(type) {
	case *types.Basic:
		return u.Kind() != types.UnsafePointer
	case *types.Struct:
		for i := 0; i < u.NumFields(); i++ {
			if !detType(u.Field(i).Type(), depth+1) {
				return false
			}
		}
		return true
	case *types.Array:
		return detType(u.Elem(), depth+1)
	}
	return false
}

func (c *fileCtx) constArg(e ast.Expr) bool {
	tv, ok := c.pkg.TypesInfo.Types[e]
	if !ok {
		return false
	}
	return tv.Value != nil || tv.IsNil()
}

func (c *fileCtx) intConst(e ast.Expr) bool {
	tv, ok := c.pkg.TypesInfo.Types[e]
	return ok && tv.Value != nil && tv.Value.Kind() == constant.Int
}

// ---------------------------------------------------------------------------

func (c *fileCtx) rewriteSelect(ss *ast.SelectStmt, labeled bool) ast.Stmt {
	if labeled {
		c.errorf(ss, "labeled select is not supported")
		return ss
	}
	c.counts["select"]++
	siteExpr := c.site(ss, "select")
	var pre []ast.Stmt
	var cases []ast.Expr
	hasDefault := false
	sel := c.fresh("s")
	var clauses []ast.Stmt
	idx := 0
	for _, cl := range ss.Body.List {
		cc := cl.(*ast.CommClause)
		if cc.Comm == nil {
			hasDefault = true
			clauses = append(clauses, &ast.CaseClause{List: nil, Body: cc.Body})
			continue
		}
		var body []ast.Stmt
		switch comm := cc.Comm.(type) {
		case *ast.SendStmt:
			ch := c.fresh("c")
			pre = append(pre, &ast.AssignStmt{Lhs: []ast.Expr{ch}, Tok: token.DEFINE, Rhs: []ast.Expr{comm.Chan}})
			var val ast.Expr = comm.Value
			if !c.constArg(comm.Value) {
				v := c.fresh("x")
				pre = append(pre, &ast.AssignStmt{Lhs: []ast.Expr{v}, Tok: token.DEFINE, Rhs: []ast.Expr{comm.Value}})
				val = v
			} else if tv := c.pkg.TypesInfo.Types[comm.Value]; tv.Value != nil {
				c.errorf(comm, "constant send value in select is not supported")
			}
			cases = append(cases, call(rt("S"), ch, val))
		case *ast.ExprStmt:
			ue, ok := ast.Unparen(comm.X).(*ast.UnaryExpr)
			if !ok || ue.Op != token.ARROW {
				c.errorf(comm, "unexpected select comm")
				return ss
			}
			ch := c.fresh("c")
			pre = append(pre, &ast.AssignStmt{Lhs: []ast.Expr{ch}, Tok: token.DEFINE, Rhs: []ast.Expr{ue.X}})
			cases = append(cases, call(rt("R"), ch))
		case *ast.AssignStmt:
			ue, ok := ast.Unparen(comm.Rhs[0]).(*ast.UnaryExpr)
			if !ok || ue.Op != token.ARROW || len(comm.Rhs) != 1 {
				c.errorf(comm, "unexpected select comm")
				return ss
			}
			ch := c.fresh("c")
			pre = append(pre, &ast.AssignStmt{Lhs: []ast.Expr{ch}, Tok: token.DEFINE, Rhs: []ast.Expr{ue.X}})
			cases = append(cases, call(rt("R"), ch))
			rhs := []ast.Expr{call(rt("RecvVal"), ch, sel)}
			if len(comm.Lhs) == 2 {
				rhs = append(rhs, &ast.SelectorExpr{X: sel, Sel: ast.NewIdent("OK")})
			}
			tok := comm.Tok
			allBlank := true
			for _, l := range comm.Lhs {
				if id, ok := l.(*ast.Ident); !ok || id.Name != "_" {
					allBlank = false
				}
			}
			if allBlank {
				tok = token.ASSIGN
			}
			body = append(body, &ast.AssignStmt{Lhs: comm.Lhs, Tok: tok, Rhs: rhs})
		default:
			c.errorf(cc, "unexpected select comm %T", comm)
			return ss
		}
		body = append(body, cc.Body...)
		clauses = append(clauses, &ast.CaseClause{
			List: []ast.Expr{&ast.BasicLit{Kind: token.INT, Value: strconv.Itoa(idx)}},
			Body: body,
		})
		idx++
	}
	hd := ast.NewIdent("false")
	if hasDefault {
		hd = ast.NewIdent("true")
	}
	args := append([]ast.Expr{siteExpr, hd}, cases...)
	sw := &ast.SwitchStmt{
		Init: &ast.AssignStmt{Lhs: []ast.Expr{sel}, Tok: token.DEFINE, Rhs: []ast.Expr{call(rt("Select"), args...)}},
		Tag:  &ast.SelectorExpr{X: sel, Sel: ast.NewIdent("I")},
		Body: &ast.BlockStmt{List: clauses},
	}
	return &ast.BlockStmt{List: append(pre, sw)}
}

func (c *fileCtx) rewriteMapRange(rs *ast.RangeStmt, labeled bool) ast.Stmt {
	if !c.keyDeterministic(rs.X) {
		c.errorf(rs, "map range with a key type whose order cannot be canonicalised")
		return rs
	}
	if rs.Tok == token.ASSIGN {
		c.errorf(rs, "map range with '=' is not supported")
		return rs
	}
	c.counts["maprange"]++
	siteExpr := c.site(rs, "maprange")
	var pre []ast.Stmt
	m := rs.X
	if !isPure(m) {
		if labeled {
			c.errorf(rs, "labeled range over a non-trivial map expression is not supported")
			return rs
		}
		t := c.fresh("m")
		pre = append(pre, &ast.AssignStmt{Lhs: []ast.Expr{t}, Tok: token.DEFINE, Rhs: []ast.Expr{m}})
		m = t
	}
	blank := func(e ast.Expr) bool {
		if e == nil {
			return true
		}
		id, ok := e.(*ast.Ident)
		return ok && id.Name == "_"
	}
	var key ast.Expr
	if blank(rs.Key) {
		key = c.fresh("k")
	} else {
		key = rs.Key
	}
	var body []ast.Stmt
	okv := c.fresh("ok")
	if !blank(rs.Value) {
		body = append(body, &ast.AssignStmt{Lhs: []ast.Expr{rs.Value, okv}, Tok: token.DEFINE,
			Rhs: []ast.Expr{&ast.IndexExpr{X: m, Index: key}}})
	} else {
		body = append(body, &ast.AssignStmt{Lhs: []ast.Expr{ast.NewIdent("_"), okv}, Tok: token.DEFINE,
			Rhs: []ast.Expr{&ast.IndexExpr{X: m, Index: key}}})
	}
	body = append(body, &ast.IfStmt{Cond: &ast.UnaryExpr{Op: token.NOT, X: okv},
		Body: &ast.BlockStmt{List: []ast.Stmt{&ast.BranchStmt{Tok: token.CONTINUE}}}})
	body = append(body, rs.Body.List...)
	loop := &ast.RangeStmt{
		Key: ast.NewIdent("_"), Value: key, Tok: token.DEFINE,
		X:    call(rt("MapKeys"), siteExpr, m),
		Body: &ast.BlockStmt{List: body},
	}
	if len(pre) == 0 {
		return loop
	}
	return &ast.BlockStmt{List: append(pre, loop)}
}

// rewriteChanRange turns `for v := range ch { body }` into
// `for { v, ok := simrt.Recv2(site, ch); if !ok { break }; body }`: a scheduling point before
// every receive and re-synchronisation after it, as for a plain receive. `continue` in the
// body continues the new loop (next receive), `break` leaves it; the loop variable is
// declared per iteration, as Go 1.22 ranges do.
func (c *fileCtx) rewriteChanRange(rs *ast.RangeStmt, labeled bool) ast.Stmt {
	c.counts["chanrange"]++
	siteExpr := c.site(rs, "recv")
	var pre []ast.Stmt
	ch := rs.X
	if !isPure(ch) {
		if labeled {
			c.errorf(rs, "labeled range over a non-trivial channel expression is not supported")
			return rs
		}
		t := c.fresh("c")
		pre = append(pre, &ast.AssignStmt{Lhs: []ast.Expr{t}, Tok: token.DEFINE, Rhs: []ast.Expr{ch}})
		ch = t
	}
	okv := c.fresh("ok")
	rhs := call(rt("Recv2"), siteExpr, ch)
	var body []ast.Stmt
	id, isIdent := rs.Key.(*ast.Ident)
	switch {
	case rs.Key == nil || (isIdent && id.Name == "_"):
		body = append(body, &ast.AssignStmt{Lhs: []ast.Expr{ast.NewIdent("_"), okv}, Tok: token.DEFINE, Rhs: []ast.Expr{rhs}})
	case rs.Tok == token.DEFINE:
		body = append(body, &ast.AssignStmt{Lhs: []ast.Expr{rs.Key, okv}, Tok: token.DEFINE, Rhs: []ast.Expr{rhs}})
	default:
		body = append(body, &ast.DeclStmt{Decl: &ast.GenDecl{Tok: token.VAR, Specs: []ast.Spec{
			&ast.ValueSpec{Names: []*ast.Ident{okv}, Type: ast.NewIdent("bool")}}}})
		body = append(body, &ast.AssignStmt{Lhs: []ast.Expr{rs.Key, okv}, Tok: token.ASSIGN, Rhs: []ast.Expr{rhs}})
	}
	body = append(body, &ast.IfStmt{Cond: &ast.UnaryExpr{Op: token.NOT, X: okv},
		Body: &ast.BlockStmt{List: []ast.Stmt{&ast.BranchStmt{Tok: token.BREAK}}}})
	body = append(body, rs.Body.List...)
	loop := &ast.ForStmt{Body: &ast.BlockStmt{List: body}}
	if len(pre) == 0 {
		return loop
	}
	return &ast.BlockStmt{List: append(pre, loop)}
}

func (c *fileCtx) rewriteGo(gs *ast.GoStmt) ast.Stmt {
	c.counts["go"]++
	siteExpr := c.site(gs, "go")
	ce := gs.Call
	if fl, ok := ce.Fun.(*ast.FuncLit); ok && len(ce.Args) == 0 {
		return &ast.ExprStmt{X: call(rt("Go"), siteExpr, fl)}
	}
	var pre []ast.Stmt
	fn := ce.Fun
	// evaluate the function value now (method values bind their receiver here, as `go` does)
	if _, isIdent := fn.(*ast.Ident); !isIdent {
		f := c.fresh("f")
		pre = append(pre, &ast.AssignStmt{Lhs: []ast.Expr{f}, Tok: token.DEFINE, Rhs: []ast.Expr{fn}})
		fn = f
	}
	var args []ast.Expr
	for _, a := range ce.Args {
		if c.constArg(a) {
			args = append(args, a)
			continue
		}
		t := c.fresh("a")
		pre = append(pre, &ast.AssignStmt{Lhs: []ast.Expr{t}, Tok: token.DEFINE, Rhs: []ast.Expr{a}})
		args = append(args, t)
	}
	inner := &ast.CallExpr{Fun: fn, Args: args, Ellipsis: ce.Ellipsis}
	lit := &ast.FuncLit{Type: &ast.FuncType{Params: &ast.FieldList{}}, Body: &ast.BlockStmt{List: []ast.Stmt{&ast.ExprStmt{X: inner}}}}
	pre = append(pre, &ast.ExprStmt{X: call(rt("Go"), siteExpr, lit)})
	return &ast.BlockStmt{List: pre}
}

func (c *fileCtx) blockingCall(ce *ast.CallExpr) (bool, int) {
	fn := c.calleeOf(ce)
	if fn == nil || fn.Pkg() == nil {
		return false, 0
	}
	names := c.cfg.BlockingFns[fn.Pkg().Path()]
	if names == nil || !names[fn.Name()] {
		return false, 0
	}
	sig := fn.Type().(*types.Signature)
	return true, sig.Results().Len()
}

// apply rewrites one file in place.
func (c *fileCtx) apply() {
	info := c.pkg.TypesInfo
	// pass 1: statement-level rewrites that need their parents (select, range, go, send, close, sleep)
	c.skipRecv = map[ast.Node]bool{}
	astutil.Apply(c.file, func(cur *astutil.Cursor) bool {
		// mark recv expressions that belong to select comms so the expression pass leaves them alone
		if ss, ok := cur.Node().(*ast.SelectStmt); ok {
			for _, cl := range ss.Body.List {
				cc := cl.(*ast.CommClause)
				switch comm := cc.Comm.(type) {
				case *ast.ExprStmt:
					c.skipRecv[ast.Unparen(comm.X)] = true
				case *ast.AssignStmt:
					if len(comm.Rhs) == 1 {
						c.skipRecv[ast.Unparen(comm.Rhs[0])] = true
					}
				}
			}
		}
		return true
	}, nil)

	astutil.Apply(c.file, nil, func(cur *astutil.Cursor) bool {
		n := cur.Node()
		_, labeled := cur.Parent().(*ast.LabeledStmt)
		switch x := n.(type) {
		case *ast.SelectStmt:
			cur.Replace(c.rewriteSelect(x, labeled))
		case *ast.RangeStmt:
			if c.isMap(x.X) {
				cur.Replace(c.rewriteMapRange(x, labeled))
			} else if c.isChan(x.X) {
				cur.Replace(c.rewriteChanRange(x, labeled))
			}
		case *ast.GoStmt:
			cur.Replace(c.rewriteGo(x))
		case *ast.SendStmt:
			if _, inComm := cur.Parent().(*ast.CommClause); inComm {
				return true
			}
			c.counts["send"]++
			inner := &ast.FuncLit{Type: &ast.FuncType{Params: &ast.FieldList{}}, Body: &ast.BlockStmt{List: []ast.Stmt{
				&ast.DeferStmt{Call: call(rt("AfterBlock"))},
				x,
			}}}
			cur.Replace(&ast.BlockStmt{List: []ast.Stmt{
				&ast.ExprStmt{X: call(rt("Yield"), c.site(x, "send"))},
				&ast.ExprStmt{X: call(inner)},
			}})
		case *ast.ExprStmt:
			ce, ok := x.X.(*ast.CallExpr)
			if !ok {
				return true
			}
			if id, ok := ce.Fun.(*ast.Ident); ok && id.Name == "close" && len(ce.Args) == 1 {
				if _, isBuiltin := info.Uses[id].(*types.Builtin); isBuiltin {
					c.counts["close"]++
					cur.Replace(&ast.BlockStmt{List: []ast.Stmt{
						&ast.ExprStmt{X: call(rt("Yield"), c.site(x, "close"))},
						x,
					}})
					return true
				}
			}
			if fn := c.calleeOf(ce); fn != nil && fn.Pkg() != nil && fn.Pkg().Path() == "time" && fn.Name() == "Sleep" {
				c.counts["sleep"]++
				cur.Replace(&ast.ExprStmt{X: call(rt("Sleep"), c.site(x, "sleep"), ce.Args[0])})
				return true
			}
			if b, _ := c.blockingCall(ce); b {
				if _, isDeferOrGo := cur.Parent().(*ast.DeferStmt); isDeferOrGo {
					return true
				}
				c.counts["blockingcall"]++
				c.skipRecv[ce] = true
				cur.Replace(&ast.BlockStmt{List: []ast.Stmt{
					&ast.ExprStmt{X: call(rt("Yield"), c.site(x, "call:"+c.calleeOf(ce).Name()))},
					x,
					&ast.ExprStmt{X: call(rt("AfterBlock"))},
				}})
			}
		}
		return true
	})

	// pass 2: expression-level rewrites
	astutil.Apply(c.file, nil, func(cur *astutil.Cursor) bool {
		switch x := cur.Node().(type) {
		case *ast.UnaryExpr:
			if x.Op != token.ARROW || c.skipRecv[x] {
				return true
			}
			c.counts["recv"]++
			fn := "Recv"
			switch p := cur.Parent().(type) {
			case *ast.AssignStmt:
				if len(p.Lhs) == 2 && len(p.Rhs) == 1 {
					fn = "Recv2"
				}
			case *ast.ValueSpec:
				if len(p.Names) == 2 && len(p.Values) == 1 {
					fn = "Recv2"
				}
			}
			cur.Replace(call(rt(fn), c.site(x, "recv"), x.X))
		case *ast.CallExpr:
			if c.skipRecv[x] {
				return true
			}
			// mutexes
			if addr, typ, method, ok := c.mutexCall(x); ok {
				c.counts["mutex"]++
				var name string
				needSite := false
				switch {
				case typ == "Mutex" && method == "Lock":
					name, needSite = "Lock", true
				case typ == "Mutex" && method == "Unlock":
					name = "Unlock"
				case typ == "RWMutex" && method == "Lock":
					name, needSite = "WLock", true
				case typ == "RWMutex" && method == "Unlock":
					name = "WUnlock"
				case typ == "RWMutex" && method == "RLock":
					name, needSite = "RLock", true
				case typ == "RWMutex" && method == "RUnlock":
					name = "RUnlock"
				}
				if needSite {
					cur.Replace(call(rt(name), c.site(x, "lock"), addr))
				} else {
					cur.Replace(call(rt(name), addr))
				}
				return true
			}
			fn := c.calleeOf(x)
			// context.AfterFunc / time.AfterFunc
			if fn != nil && fn.Pkg() != nil && fn.Name() == "AfterFunc" && (fn.Pkg().Path() == "context" || fn.Pkg().Path() == "time") && len(x.Args) == 2 {
				c.counts["afterfunc"]++
				x.Args[1] = call(rt("Async"), c.site(x, "afterfunc"), x.Args[1])
				return true
			}
			// knobs
			if id, ok := x.Fun.(*ast.Ident); ok {
				if _, isBuiltin := info.Uses[id].(*types.Builtin); isBuiltin && id.Name == "make" && len(x.Args) == 2 {
					if _, isChanT := info.TypeOf(x.Args[0]).Underlying().(*types.Chan); isChanT && c.intConst(x.Args[1]) {
						c.counts["knob"]++
						x.Args[1] = call(rt("Knob"), c.site(x, "knob:makechan"), x.Args[1])
						return true
					}
				}
				if c.cfg.KnobFuncs[id.Name] && len(x.Args) == 1 && c.intConst(x.Args[0]) {
					c.counts["knob"]++
					x.Args[0] = call(rt("Knob"), c.site(x, "knob:"+id.Name), x.Args[0])
					return true
				}
			}
			// blocking library calls in expression position
			if b, nres := c.blockingCall(x); b {
				switch cur.Parent().(type) {
				case *ast.DeferStmt, *ast.GoStmt:
					return true
				}
				if nres < 1 || nres > 3 {
					c.errorf(x, "blocking call %s with %d results in expression position", fn.Name(), nres)
					return true
				}
				c.counts["blockingcall"]++
				c.skipRecv[x] = true
				w := call(rt("After"+strconv.Itoa(nres)), x)
				c.skipRecv[w] = true
				cur.Replace(w)
			}
		case *ast.SelectorExpr:
			// seams: pkg.Name -> newpkg.NewName
			id, ok := x.X.(*ast.Ident)
			if !ok {
				return true
			}
			pn, ok := info.Uses[id].(*types.PkgName)
			if !ok {
				return true
			}
			for _, s := range c.cfg.Seams {
				if s.File == c.rel && s.Pkg == pn.Imported().Path() && s.Name == x.Sel.Name {
					alias := "vseam" + sanitize(s.NewPkg)
					c.needImp[s.NewPkg] = alias
					cur.Replace(&ast.SelectorExpr{X: ast.NewIdent(alias), Sel: ast.NewIdent(s.NewName)})
					c.seamHit[s.File+":"+s.Pkg+"."+s.Name] = true
					c.counts["seam"]++
				}
			}
		}
		return true
	})
}

func sanitize(s string) string {
	var b strings.Builder
	for _, r := range s {
		if (r >= 'a' && r <= 'z') || (r >= 'A' && r <= 'Z') || (r >= '0' && r <= '9') {
			b.WriteRune(r)
		}
	}
	return b.String()
}

// Run instruments everything in cfg and writes overlay.json into cfg.OutDir.
func Run(cfg *Config) (*Report, error) {
	var patterns []string
	for p := range cfg.Files {
		patterns = append(patterns, p)
	}
	sort.Strings(patterns)
	lcfg := &packages.Config{
		Mode: packages.NeedName | packages.NeedFiles | packages.NeedCompiledGoFiles | packages.NeedSyntax |
			packages.NeedTypes | packages.NeedTypesInfo | packages.NeedImports,
		Dir: cfg.HarnessDir,
		Env: append(os.Environ(), "GOFLAGS=-mod=mod", "GOPROXY=off"),
	}
	pkgs, err := packages.Load(lcfg, patterns...)
	if err != nil {
		return nil, fmt.Errorf("load: %w", err)
	}
	rep := &Report{Counts: map[string]int{}}
	overlay := map[string]string{}
	var allErrs []string
	seamHit := map[string]bool{}
	sort.Slice(pkgs, func(i, j int) bool { return pkgs[i].PkgPath < pkgs[j].PkgPath })
	fileIdx := 0
	var fp bytes.Buffer
	for _, p := range pkgs {
		for _, e := range p.Errors {
			allErrs = append(allErrs, "typecheck "+p.PkgPath+": "+e.Error())
		}
		want := cfg.Files[p.PkgPath]
		wantSet := map[string]bool{}
		for _, f := range want {
			wantSet[f] = true
		}
		var siteFiles []string
		pkgDir := ""
		for i, f := range p.Syntax {
			path := p.CompiledGoFiles[i]
			pkgDir = filepath.Dir(path)
			base := filepath.Base(path)
			if strings.HasSuffix(base, "_test.go") {
				continue
			}
			if want != nil && !wantSet[base] {
				continue
			}
			delete(wantSet, base)
			rel, _ := filepath.Rel(cfg.RepoRoot, path)
			fileIdx++
			c := &fileCtx{cfg: cfg, pkg: p, file: f, rel: rel, base: fileIdx * 10000, counts: map[string]int{},
				seamHit: seamHit, needImp: map[string]string{}}
			c.apply()
			allErrs = append(allErrs, c.errs...)
			for k, v := range c.counts {
				rep.Counts[k] += v
			}
			// import swaps
			for _, sw := range cfg.Swaps {
				if sw.File != rel {
					continue
				}
				done := false
				for _, imp := range f.Imports {
					if imp.Path.Value == strconv.Quote(sw.Old) {
						if imp.Name == nil {
							imp.Name = ast.NewIdent(filepath.Base(sw.Old))
						}
						imp.Path.Value = strconv.Quote(sw.New)
						done = true
					}
				}
				if done {
					seamHit["swap:"+sw.File+":"+sw.Old] = true
					rep.Counts["importswap"]++
				}
			}
			for _, cg := range f.Comments {
				for _, cm := range cg.List {
					if (strings.HasPrefix(cm.Text, "//go:") && !strings.HasPrefix(cm.Text, "//go:generate")) || strings.HasPrefix(cm.Text, "// +build") {
						allErrs = append(allErrs, fmt.Sprintf("%s: compiler directive %q in an instrumented file is not supported", rel, cm.Text))
					}
				}
			}
			f.Comments = nil
			astutil.AddNamedImport(p.Fset, f, rtName, rtPath)
			for path, alias := range c.needImp {
				astutil.AddNamedImport(p.Fset, f, alias, path)
			}
			// the original imports may have become unused after seam swaps
			seamPkgs := map[string]bool{}
			for _, sm := range cfg.Seams {
				if sm.File == rel {
					seamPkgs[sm.Pkg] = true
				}
			}
			if len(seamPkgs) > 0 {
				pruneSeamImports(f, seamPkgs, p.TypesInfo)
			}
			// sites
			var sb strings.Builder
			fmt.Fprintf(&sb, "\nfunc init() { %s.RegisterSites(%d, []string{", rtName, c.base)
			for _, s := range c.sites {
				fmt.Fprintf(&sb, "%q,", s)
			}
			sb.WriteString("}) }\n")
			var out bytes.Buffer
			if err := format.Node(&out, p.Fset, f); err != nil {
				allErrs = append(allErrs, fmt.Sprintf("%s: format: %v", rel, err))
				continue
			}
			out.WriteString(sb.String())
			dst := filepath.Join(cfg.OutDir, "src", rel)
			if err := os.MkdirAll(filepath.Dir(dst), 0o755); err != nil {
				return nil, err
			}
			if err := os.WriteFile(dst, out.Bytes(), 0o644); err != nil {
				return nil, err
			}
			overlay[path] = dst
			rep.Files = append(rep.Files, rel)
			siteFiles = append(siteFiles, rel)
			fp.Write(out.Bytes())
		}
		for f := range wantSet {
			allErrs = append(allErrs, fmt.Sprintf("%s: file %s listed for instrumentation not found", p.PkgPath, f))
		}
		// extra in-package harness files
		if dir, ok := cfg.InPkg[p.PkgPath]; ok && pkgDir != "" {
			ents, err := os.ReadDir(dir)
			if err != nil {
				return nil, err
			}
			for _, e := range ents {
				if e.IsDir() || !strings.HasSuffix(e.Name(), ".go") {
					continue
				}
				overlay[filepath.Join(pkgDir, "zz_vsim_"+e.Name())] = filepath.Join(dir, e.Name())
			}
		}
	}
	for _, s := range cfg.Seams {
		k := s.File + ":" + s.Pkg + "." + s.Name
		if !seamHit[k] {
			allErrs = append(allErrs, "seam site missing: "+k)
		} else {
			rep.SeamsApplied = append(rep.SeamsApplied, k+" -> "+s.NewPkg+"."+s.NewName)
		}
	}
	for _, s := range cfg.Swaps {
		if !seamHit["swap:"+s.File+":"+s.Old] {
			allErrs = append(allErrs, "import swap site missing: "+s.File+":"+s.Old)
		} else {
			rep.SeamsApplied = append(rep.SeamsApplied, s.File+": import "+s.Old+" -> "+s.New)
		}
	}
	if len(allErrs) > 0 {
		return nil, fmt.Errorf("instrumentation failed:\n  %s", strings.Join(allErrs, "\n  "))
	}
	ov := struct{ Replace map[string]string }{overlay}
	b, _ := json.MarshalIndent(ov, "", " ")
	if err := os.WriteFile(filepath.Join(cfg.OutDir, "overlay.json"), b, 0o644); err != nil {
		return nil, err
	}
	rep.Fingerprint = fmt.Sprintf("%016x", fnv64(fp.Bytes()))
	sort.Strings(rep.Files)
	sort.Strings(rep.SeamsApplied)
	return rep, nil
}

func fnv64(b []byte) uint64 {
	h := uint64(14695981039346656037)
	for _, c := range b {
		h ^= uint64(c)
		h *= 1099511628211
	}
	return h
}

// pruneSeamImports drops the import of a seam's original package when the swap removed
// its last use in the file.
func pruneSeamImports(f *ast.File, paths map[string]bool, info *types.Info) {
	used := map[string]bool{}
	ast.Inspect(f, func(n ast.Node) bool {
		if se, ok := n.(*ast.SelectorExpr); ok {
			if id, ok := se.X.(*ast.Ident); ok {
				used[id.Name] = true
			}
		}
		return true
	})
	for _, d := range f.Decls {
		gd, ok := d.(*ast.GenDecl)
		if !ok || gd.Tok != token.IMPORT {
			continue
		}
		var keep []ast.Spec
		for _, s := range gd.Specs {
			is := s.(*ast.ImportSpec)
			p, _ := strconv.Unquote(is.Path.Value)
			if !paths[p] {
				keep = append(keep, s)
				continue
			}
			name := p[strings.LastIndex(p, "/")+1:]
			if is.Name != nil {
				name = is.Name.Name
			} else if pn, ok := info.Implicits[is].(*types.PkgName); ok {
				name = pn.Name()
			}
			if used[name] {
				keep = append(keep, s)
			}
		}
		gd.Specs = keep
	}
	var imps []*ast.ImportSpec
	for _, d := range f.Decls {
		if gd, ok := d.(*ast.GenDecl); ok && gd.Tok == token.IMPORT {
			for _, s := range gd.Specs {
				imps = append(imps, s.(*ast.ImportSpec))
			}
		}
	}
	f.Imports = imps
}
