// Package simnet is the in-memory network used at the net.Listen / net.Dial seams
// (transport/mux/receiver.go, establisher.go, proxy/cluster_connection.go). Connections
// are pairs of buffered byte pipes; every blocking operation waits on a channel or a
// timer, which testing/synctest treats as a durable block, so the bubble's fake clock and
// quiescence detection keep working with real yamux, TLS and gRPC on top.
//
// Each connection carries fault switches the world can flip: refuse at dial, reset,
// half-close, partition (bytes stop arriving), corrupt a byte, cut after N bytes.
package simnet

import (
	"context"
	"errors"
	"fmt"
	"io"
	"net"
	"os"
	"sync"
	"sync/atomic"
	"time"
)

// Addr is a simulated address.
type Addr struct{ S string }

func (a Addr) Network() string { return "tcp" }
func (a Addr) String() string  { return a.S }

type pipe struct {
	mu       sync.Mutex
	buf      []byte
	wclosed  bool  // writer closed: reader sees EOF after draining
	err      error // hard error for both sides (reset)
	paused   bool  // partition: bytes are held back
	ch       chan struct{}
	total    int64 // bytes ever written
	cutAt    int64 // >0: connection is reset once this many bytes have been written
	flipAt   int64 // >0: the byte with this (1-based) index is corrupted
	onCut    func()
	fired    bool
	stallW   bool          // writes into this pipe block (the peer does not read and its window is full)
	wch      chan struct{} // wakes blocked writers
	rdl, wdl time.Time
}

func newPipe() *pipe { return &pipe{ch: make(chan struct{}, 1), wch: make(chan struct{}, 1)} }

func (p *pipe) wakeWriters() {
	select {
	case p.wch <- struct{}{}:
	default:
	}
}

func (p *pipe) signal() {
	select {
	case p.ch <- struct{}{}:
	default:
	}
}

// Conn is one end of a simulated connection.
type Conn struct {
	ID     int
	Role   string // "dialer" or "acceptor"
	rd, wr *pipe
	local  Addr
	remote Addr
	pair   *Pair
	mu     sync.Mutex
	closed bool
}

// Pair is a connection with both ends, for inspection and fault injection.
type Pair struct {
	ID       int
	Dialer   *Conn
	Acceptor *Conn
	ListenAt string
	net      *Net
	accepted int32 // set when the listener's Accept returned the connection
}

// Accepted reports whether the listening side has taken the connection out of its backlog.
func (p *Pair) Accepted() bool { return atomic.LoadInt32(&p.accepted) == 1 }

var errTimeout = &timeoutErr{}

type timeoutErr struct{}

func (*timeoutErr) Error() string   { return "i/o timeout" }
func (*timeoutErr) Timeout() bool   { return true }
func (*timeoutErr) Temporary() bool { return true }
func (*timeoutErr) Is(target error) bool {
	return target == os.ErrDeadlineExceeded
}

func (c *Conn) Read(b []byte) (int, error) {
	p := c.rd
	for {
		p.mu.Lock()
		if p.err != nil {
			err := p.err
			p.mu.Unlock()
			return 0, err
		}
		c.mu.Lock()
		closed := c.closed
		c.mu.Unlock()
		if closed {
			p.mu.Unlock()
			return 0, net.ErrClosed
		}
		if len(p.buf) > 0 && !p.paused {
			n := copy(b, p.buf)
			p.buf = p.buf[n:]
			if len(p.buf) > 0 {
				p.signal()
			}
			p.mu.Unlock()
			return n, nil
		}
		if p.wclosed && !p.paused {
			p.mu.Unlock()
			return 0, io.EOF
		}
		dl := p.rdl
		p.mu.Unlock()
		if err := waitOn(p.ch, dl); err != nil {
			return 0, err
		}
	}
}

func waitOn(ch chan struct{}, dl time.Time) error {
	if dl.IsZero() {
		<-ch
		return nil
	}
	d := time.Until(dl)
	if d <= 0 {
		return errTimeout
	}
	t := time.NewTimer(d)
	defer t.Stop()
	select {
	case <-ch:
		return nil
	case <-t.C:
		return errTimeout
	}
}

func (c *Conn) Write(b []byte) (int, error) {
	c.mu.Lock()
	closed := c.closed
	c.mu.Unlock()
	if closed {
		return 0, net.ErrClosed
	}
	p := c.wr
	for {
		p.mu.Lock()
		if !p.stallW || p.err != nil || p.wclosed {
			break
		}
		p.mu.Unlock()
		c.mu.Lock()
		closed := c.closed
		c.mu.Unlock()
		if closed {
			return 0, net.ErrClosed
		}
		<-p.wch
	}
	p.wakeWriters() // cascade to other writers that were blocked with us
	if p.err != nil {
		err := p.err
		p.mu.Unlock()
		return 0, err
	}
	if p.wclosed {
		p.mu.Unlock()
		return 0, io.ErrClosedPipe
	}
	data := append([]byte(nil), b...)
	if p.flipAt > 0 && p.total < p.flipAt && p.total+int64(len(data)) >= p.flipAt {
		data[p.flipAt-p.total-1] ^= 0x5a
		p.flipAt = 0
		p.fired = true
	}
	cut := false
	if p.cutAt > 0 && p.total+int64(len(data)) >= p.cutAt {
		data = data[:p.cutAt-p.total]
		cut = true
		p.fired = true
	}
	p.total += int64(len(data))
	p.buf = append(p.buf, data...)
	p.signal()
	onCut := p.onCut
	p.mu.Unlock()
	if cut {
		if onCut != nil {
			onCut()
		}
		c.pair.Reset()
		return len(data), errors.New("simnet: connection reset by peer")
	}
	return len(b), nil
}

// Close closes this end: the peer reads EOF after draining; local reads/writes fail.
func (c *Conn) Close() error {
	c.mu.Lock()
	if c.closed {
		c.mu.Unlock()
		return nil
	}
	c.closed = true
	c.mu.Unlock()
	c.wr.mu.Lock()
	c.wr.wclosed = true
	c.wr.signal()
	c.wr.wakeWriters()
	c.wr.mu.Unlock()
	c.rd.mu.Lock()
	c.rd.signal()
	c.rd.mu.Unlock()
	return nil
}

// Closed reports whether Close was called on this end.
func (c *Conn) Closed() bool {
	c.mu.Lock()
	defer c.mu.Unlock()
	return c.closed
}

// SawPeerGone reports whether this end would observe that the other end is gone (EOF or reset).
func (c *Conn) SawPeerGone() bool {
	c.rd.mu.Lock()
	defer c.rd.mu.Unlock()
	return c.rd.wclosed || c.rd.err != nil
}

func (c *Conn) LocalAddr() net.Addr  { return c.local }
func (c *Conn) RemoteAddr() net.Addr { return c.remote }

func (c *Conn) SetDeadline(t time.Time) error {
	c.SetReadDeadline(t)
	c.SetWriteDeadline(t)
	return nil
}
func (c *Conn) SetReadDeadline(t time.Time) error {
	c.rd.mu.Lock()
	c.rd.rdl = t
	c.rd.signal()
	c.rd.mu.Unlock()
	return nil
}
func (c *Conn) SetWriteDeadline(t time.Time) error { return nil }

// Reset makes both ends fail with a connection-reset error.
func (p *Pair) Reset() {
	err := errors.New("simnet: connection reset by peer")
	for _, pp := range []*pipe{p.Dialer.rd, p.Dialer.wr} {
		pp.mu.Lock()
		if pp.err == nil {
			pp.err = err
		}
		pp.signal()
		pp.wakeWriters()
		pp.mu.Unlock()
	}
}

// Partition holds back all bytes in both directions (true) or releases them (false).
func (p *Pair) Partition(on bool) {
	for _, pp := range []*pipe{p.Dialer.rd, p.Dialer.wr} {
		pp.mu.Lock()
		pp.paused = on
		pp.signal()
		pp.mu.Unlock()
	}
}

// StallWrites makes writes by the given end block (true) or flow again (false).
func (p *Pair) StallWrites(end *Conn, on bool) {
	end.wr.mu.Lock()
	end.wr.stallW = on
	end.wr.wakeWriters()
	end.wr.mu.Unlock()
}

// CutAfter resets the connection once the given end has written n more bytes.
func (p *Pair) CutAfter(end *Conn, n int64, onCut func()) {
	end.wr.mu.Lock()
	end.wr.cutAt = end.wr.total + n
	end.wr.onCut = onCut
	end.wr.mu.Unlock()
}

// FlipByte corrupts the n-th next byte written by the given end.
func (p *Pair) FlipByte(end *Conn, n int64) {
	end.wr.mu.Lock()
	end.wr.flipAt = end.wr.total + n
	end.wr.mu.Unlock()
}

// FaultFired reports whether a FlipByte / CutAfter armed on the given end has taken effect.
func (p *Pair) FaultFired(end *Conn) bool {
	end.wr.mu.Lock()
	defer end.wr.mu.Unlock()
	return end.wr.fired
}

// Dead reports whether nothing can flow any more.
func (p *Pair) Dead() bool {
	p.Dialer.rd.mu.Lock()
	e := p.Dialer.rd.err != nil
	p.Dialer.rd.mu.Unlock()
	return e || (p.Dialer.Closed() && p.Acceptor.Closed())
}

// ---- listeners and the network ----

type Listener struct {
	net      *Net
	addr     Addr
	incoming chan *Conn
	mu       sync.Mutex
	closed   bool
	done     chan struct{}
}

func (l *Listener) Accept() (net.Conn, error) {
	select {
	case c := <-l.incoming:
		atomic.StoreInt32(&c.pair.accepted, 1)
		return c, nil
	case <-l.done:
		return nil, net.ErrClosed
	}
}

func (l *Listener) Close() error {
	l.mu.Lock()
	if !l.closed {
		l.closed = true
		close(l.done)
	}
	l.mu.Unlock()
	l.net.mu.Lock()
	if l.net.listeners[l.addr.S] == l {
		delete(l.net.listeners, l.addr.S)
	}
	l.net.mu.Unlock()
	return nil
}

func (l *Listener) Addr() net.Addr { return l.addr }

// Pending is the number of accepted-but-not-yet-Accept()ed connections.
func (l *Listener) Pending() int { return len(l.incoming) }

// Net is one simulated network.
type Net struct {
	mu        sync.Mutex
	listeners map[string]*Listener
	pairs     []*Pair
	nextID    int
	nextPort  int
	// Refuse makes dials to an address fail with "connection refused".
	Refuse map[string]bool
	// OnDial, if set, is told about every dial attempt (after the refuse decision).
	OnDial func(addr string, ok bool)
}

var (
	curMu sync.Mutex
	cur   *Net
)

func New() *Net {
	return &Net{listeners: map[string]*Listener{}, Refuse: map[string]bool{}, nextPort: 40000}
}

// Use installs the network used by the package-level Listen/Dial functions.
func Use(n *Net) {
	curMu.Lock()
	cur = n
	curMu.Unlock()
}

func current() *Net {
	curMu.Lock()
	defer curMu.Unlock()
	return cur
}

// Pairs returns every connection ever created.
func (n *Net) Pairs() []*Pair {
	n.mu.Lock()
	defer n.mu.Unlock()
	return append([]*Pair(nil), n.pairs...)
}

// SetRefuse switches dial refusal for an address.
func (n *Net) SetRefuse(addr string, on bool) {
	n.mu.Lock()
	n.Refuse[addr] = on
	n.mu.Unlock()
}

func (n *Net) Listen(addr string) (*Listener, error) {
	n.mu.Lock()
	defer n.mu.Unlock()
	host, port, err := net.SplitHostPort(addr)
	if err != nil {
		return nil, err
	}
	if port == "0" {
		n.nextPort++
		addr = net.JoinHostPort(host, fmt.Sprint(n.nextPort))
	}
	if _, dup := n.listeners[addr]; dup {
		return nil, fmt.Errorf("simnet: listen %s: address already in use", addr)
	}
	l := &Listener{net: n, addr: Addr{addr}, incoming: make(chan *Conn, 256), done: make(chan struct{})}
	n.listeners[addr] = l
	return l, nil
}

func (n *Net) Dial(addr string) (*Conn, error) {
	n.mu.Lock()
	l := n.listeners[addr]
	refuse := n.Refuse[addr]
	onDial := n.OnDial
	if l == nil || refuse {
		n.mu.Unlock()
		if onDial != nil {
			onDial(addr, false)
		}
		return nil, fmt.Errorf("simnet: dial %s: connection refused", addr)
	}
	n.nextID++
	id := n.nextID
	a2b, b2a := newPipe(), newPipe()
	d := &Conn{ID: id, Role: "dialer", rd: b2a, wr: a2b, local: Addr{fmt.Sprintf("sim-d%d:1", id)}, remote: Addr{addr}}
	a := &Conn{ID: id, Role: "acceptor", rd: a2b, wr: b2a, local: Addr{addr}, remote: d.local}
	p := &Pair{ID: id, Dialer: d, Acceptor: a, ListenAt: addr, net: n}
	d.pair, a.pair = p, p
	n.pairs = append(n.pairs, p)
	n.mu.Unlock()
	select {
	case l.incoming <- a:
	default:
		return nil, fmt.Errorf("simnet: dial %s: backlog full", addr)
	}
	if onDial != nil {
		onDial(addr, true)
	}
	return d, nil
}

// ---- seam entry points (signatures of net.Listen, net.DialTimeout, grpc context dialer) ----

func Listen(network, addr string) (net.Listener, error) {
	n := current()
	if n == nil {
		return nil, errors.New("simnet: no network installed")
	}
	return n.Listen(addr)
}

func DialTimeout(network, addr string, d time.Duration) (net.Conn, error) {
	n := current()
	if n == nil {
		return nil, errors.New("simnet: no network installed")
	}
	c, err := n.Dial(addr)
	if err != nil {
		return nil, err
	}
	return c, nil
}

func DialContext(ctx context.Context, addr string) (net.Conn, error) {
	if err := ctx.Err(); err != nil {
		return nil, err
	}
	return DialTimeout("tcp", addr, 0)
}
