// Package simnet is the in-memory network used at the net.Listen / net.Dial seams.
package simnet

import (
	"context"
	"errors"
	"net"
	"time"
)

var errNotImpl = errors.New("simnet: not implemented yet")

func Listen(network, addr string) (net.Listener, error)                   { return nil, errNotImpl }
func DialTimeout(network, addr string, d time.Duration) (net.Conn, error) { return nil, errNotImpl }
func DialContext(ctx context.Context, addr string) (net.Conn, error)      { return nil, errNotImpl }
