// Package simio provides in-memory stand-ins for gRPC's bidirectional
// StreamWorkflowReplicationMessages stream (both generated interfaces) and for the
// AdminServiceClient that opens such streams. They model gRPC's observable stream
// contract, not gRPC itself: per-direction FIFO, Recv fails after peer end / context
// cancellation / transport break, Send fails on a dead stream, CloseSend half-closes.
// Blocking is sim-level (simrt.WaitUntil), so the scheduler sees exactly who can proceed.
package simio

import (
	"context"
	"io"

	"go.temporal.io/server/api/adminservice/v1"
	"google.golang.org/grpc/codes"
	"google.golang.org/grpc/metadata"
	"google.golang.org/grpc/status"

	"vsim/simrt"
)

type Req = adminservice.StreamWorkflowReplicationMessagesRequest
type Res = adminservice.StreamWorkflowReplicationMessagesResponse

const siteBase = 900000

const (
	siteClientSend = siteBase + iota
	siteClientRecv
	siteServerSend
	siteServerRecv
	siteCloseSend
	siteOpen
)

func init() {
	simrt.RegisterSites(siteBase, []string{"simio:client.Send", "simio:client.Recv", "simio:server.Send", "simio:server.Recv", "simio:client.CloseSend", "simio:open"})
}

// Stream is one bidirectional stream. All fields are only touched by the single running
// task or by the scheduler between tasks, so no locking is needed.
type Stream struct {
	Name string
	ID   int
	// Window bounds each direction's queue (0 = unbounded); a full queue blocks Send.
	Window int

	clientCtx    context.Context
	serverCtx    context.Context
	serverCancel context.CancelFunc

	c2s []*Req
	s2c []*Res

	ClientClosedSend bool
	ServerEnded      bool
	ServerErr        error
	Broken           error // transport failure visible to both ends
	SendFailClient   error // injected: next client Send fails with this
	SendFailServer   error // injected: next server Send fails with this
	StallCloseSend   bool  // injected: CloseSend does not return until released

	// counters / observation
	C2SSent, C2SDelivered int
	S2CSent, S2CDelivered int
	// OnC2S / OnS2C are invoked when a message is enqueued by the sending side.
	OnC2S func(*Req)
	OnS2C func(*Res)
	// OnDeliverC2S / OnDeliverS2C are invoked when the receiving side's Recv returns the message.
	OnDeliverC2S func(*Req)
	OnDeliverS2C func(*Res)
	OnCloseSend  func()
}

// NewStream creates a stream opened by a client with clientCtx (its outgoing metadata
// becomes the server's incoming metadata).
func NewStream(name string, id int, clientCtx context.Context, window int) *Stream {
	st := &Stream{Name: name, ID: id, Window: window, clientCtx: clientCtx}
	md, _ := metadata.FromOutgoingContext(clientCtx)
	sctx := metadata.NewIncomingContext(clientCtx, md.Copy())
	st.serverCtx, st.serverCancel = context.WithCancel(sctx)
	return st
}

func (s *Stream) ClientCtx() context.Context { return s.clientCtx }
func (s *Stream) ServerCtx() context.Context { return s.serverCtx }

// Dead reports whether nothing more can flow on the stream.
func (s *Stream) Dead() bool {
	return s.Broken != nil || s.ServerEnded || s.clientCtx.Err() != nil
}

func (s *Stream) full(n int) bool { return s.Window > 0 && n >= s.Window }

// ---- client end ----

func (s *Stream) clientSend(m *Req) error {
	if s.SendFailClient != nil {
		err := s.SendFailClient
		s.SendFailClient = nil
		return err
	}
	simrt.WaitUntil(siteClientSend, "client.Send:"+s.Name, func() bool {
		return !s.full(len(s.c2s)) || s.Dead() || s.ClientClosedSend
	})
	if s.clientCtx.Err() != nil {
		return status.FromContextError(s.clientCtx.Err()).Err()
	}
	if s.Broken != nil || s.ServerEnded {
		return io.EOF
	}
	if s.ClientClosedSend {
		return status.Error(codes.Internal, "SendMsg called after CloseSend")
	}
	s.c2s = append(s.c2s, m)
	s.C2SSent++
	if s.OnC2S != nil {
		s.OnC2S(m)
	}
	return nil
}

func (s *Stream) clientRecv() (*Res, error) {
	simrt.WaitUntil(siteClientRecv, "client.Recv:"+s.Name, func() bool {
		return len(s.s2c) > 0 || s.Dead()
	})
	if s.clientCtx.Err() != nil {
		return nil, status.FromContextError(s.clientCtx.Err()).Err()
	}
	if s.Broken != nil {
		return nil, s.Broken
	}
	if len(s.s2c) > 0 {
		m := s.s2c[0]
		s.s2c = s.s2c[1:]
		s.S2CDelivered++
		if s.OnDeliverS2C != nil {
			s.OnDeliverS2C(m)
		}
		return m, nil
	}
	if s.ServerErr != nil {
		return nil, s.ServerErr
	}
	return nil, io.EOF
}

func (s *Stream) closeSend() error {
	simrt.WaitUntil(siteCloseSend, "client.CloseSend:"+s.Name, func() bool { return !s.StallCloseSend })
	if !s.ClientClosedSend {
		s.ClientClosedSend = true
		if s.OnCloseSend != nil {
			s.OnCloseSend()
		}
	}
	return nil
}

// ---- server end ----

func (s *Stream) serverSend(m *Res) error {
	if s.SendFailServer != nil {
		err := s.SendFailServer
		s.SendFailServer = nil
		return err
	}
	simrt.WaitUntil(siteServerSend, "server.Send:"+s.Name, func() bool {
		return !s.full(len(s.s2c)) || s.Broken != nil || s.serverCtx.Err() != nil
	})
	if s.Broken != nil {
		return s.Broken
	}
	if s.serverCtx.Err() != nil {
		return status.FromContextError(s.serverCtx.Err()).Err()
	}
	s.s2c = append(s.s2c, m)
	s.S2CSent++
	if s.OnS2C != nil {
		s.OnS2C(m)
	}
	return nil
}

func (s *Stream) serverRecv() (*Req, error) {
	simrt.WaitUntil(siteServerRecv, "server.Recv:"+s.Name, func() bool {
		return len(s.c2s) > 0 || s.ClientClosedSend || s.Broken != nil || s.serverCtx.Err() != nil
	})
	if s.Broken != nil {
		return nil, s.Broken
	}
	if s.serverCtx.Err() != nil {
		return nil, status.FromContextError(s.serverCtx.Err()).Err()
	}
	if len(s.c2s) > 0 {
		m := s.c2s[0]
		s.c2s = s.c2s[1:]
		s.C2SDelivered++
		if s.OnDeliverC2S != nil {
			s.OnDeliverC2S(m)
		}
		return m, nil
	}
	return nil, io.EOF
}

// ServerFinish is what gRPC does when the handler returns: the stream ends with err
// (nil = OK status) and the server-side context is cancelled.
func (s *Stream) ServerFinish(err error) {
	if s.ServerEnded {
		return
	}
	s.ServerEnded = true
	s.ServerErr = err
	s.serverCancel()
}

// Break models a transport failure: both ends see err from now on.
func (s *Stream) Break(err error) {
	if s.Broken == nil {
		s.Broken = err
		s.serverCancel()
	}
}

// ---- harness-side, non-blocking access (models acting as the peer) ----

// CanPushS2C / PushS2C: a server-side model sends to the (proxy) client.
func (s *Stream) CanPushS2C() bool { return !s.Dead() && !s.full(len(s.s2c)) }
func (s *Stream) PushS2C(m *Res) {
	s.s2c = append(s.s2c, m)
	s.S2CSent++
	if s.OnS2C != nil {
		s.OnS2C(m)
	}
}

// PopC2S: a server-side model reads what the (proxy) client sent.
func (s *Stream) LenC2S() int { return len(s.c2s) }
func (s *Stream) PopC2S() *Req {
	m := s.c2s[0]
	s.c2s = s.c2s[1:]
	s.C2SDelivered++
	if s.OnDeliverC2S != nil {
		s.OnDeliverC2S(m)
	}
	return m
}

// CanPushC2S / PushC2S: a client-side model sends to the (proxy) server.
func (s *Stream) CanPushC2S() bool {
	return !s.Dead() && !s.ClientClosedSend && !s.full(len(s.c2s))
}
func (s *Stream) PushC2S(m *Req) {
	s.c2s = append(s.c2s, m)
	s.C2SSent++
	if s.OnC2S != nil {
		s.OnC2S(m)
	}
}

// PopS2C: a client-side model reads what the (proxy) server sent.
func (s *Stream) LenS2C() int { return len(s.s2c) }
func (s *Stream) PopS2C() *Res {
	m := s.s2c[0]
	s.s2c = s.s2c[1:]
	s.S2CDelivered++
	if s.OnDeliverS2C != nil {
		s.OnDeliverS2C(m)
	}
	return m
}

// HarnessCloseSend: a client-side model half-closes.
func (s *Stream) HarnessCloseSend() { s.ClientClosedSend = true }

// ---- generated-interface adapters ----

// ClientEnd implements adminservice.AdminService_StreamWorkflowReplicationMessagesClient.
type ClientEnd struct{ S *Stream }

func (c ClientEnd) Send(m *Req) error            { return c.S.clientSend(m) }
func (c ClientEnd) Recv() (*Res, error)          { return c.S.clientRecv() }
func (c ClientEnd) CloseSend() error             { return c.S.closeSend() }
func (c ClientEnd) Header() (metadata.MD, error) { return metadata.MD{}, nil }
func (c ClientEnd) Trailer() metadata.MD         { return metadata.MD{} }
func (c ClientEnd) Context() context.Context     { return c.S.clientCtx }
func (c ClientEnd) SendMsg(m any) error          { return c.S.clientSend(m.(*Req)) }
func (c ClientEnd) RecvMsg(m any) error          { panic("simio: RecvMsg not supported") }

// ServerEnd implements adminservice.AdminService_StreamWorkflowReplicationMessagesServer.
type ServerEnd struct{ S *Stream }

func (e ServerEnd) Send(m *Res) error            { return e.S.serverSend(m) }
func (e ServerEnd) Recv() (*Req, error)          { return e.S.serverRecv() }
func (e ServerEnd) SetHeader(metadata.MD) error  { return nil }
func (e ServerEnd) SendHeader(metadata.MD) error { return nil }
func (e ServerEnd) SetTrailer(metadata.MD)       {}
func (e ServerEnd) Context() context.Context     { return e.S.serverCtx }
func (e ServerEnd) SendMsg(m any) error          { return e.S.serverSend(m.(*Res)) }
func (e ServerEnd) RecvMsg(m any) error          { panic("simio: RecvMsg not supported") }

var _ adminservice.AdminService_StreamWorkflowReplicationMessagesClient = ClientEnd{}
var _ adminservice.AdminService_StreamWorkflowReplicationMessagesServer = ServerEnd{}
